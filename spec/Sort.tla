-------------------------------- MODULE Sort --------------------------------
(***************************************************************************)
(* C08: sort-by-value ordering.  Acceptance is a predicate, not a          *)
(* function: ties are unconstrained.  The set of acceptable display orders *)
(* is                                                                      *)
(*   [subtotal group when descending] fixed-top  body  fixed-bottom        *)
(*   [subtotal group when ascending]                                       *)
(* with hidden / pruned elements removed, where the body (the non-fixed    *)
(* base elements) and the subtotal group are each monotone in the PUBLIC   *)
(* measure the transform names, NaN-valued members last in payload         *)
(* (definition) order.  If the key cannot be resolved the order is the     *)
(* anchored payload order.                                                 *)
(*                                                                         *)
(* The key of an element is a rational that is a strictly monotone         *)
(* function of the public measure (variance for std-dev, SE^2 for std-err  *)
(* and margin of error): comparing keys is comparing the public values.    *)
(***************************************************************************)
EXTENDS View

\* the value the public 2-D measure named m reports for cell (re, ce), as a key
MeasureKey(m, tk, re, ce) ==
  CASE m = "col_percent"   -> ColProp(tk, re, ce)
    [] m = "row_percent"   -> RowProp(tk, re, ce)
    [] m = "table_percent" -> TableProp(tk, re, ce)
    [] m = "count_weighted"   -> CountR(tk, re, ce, WS)
    [] m = "count_unweighted" -> CountR(tk, re, ce, "n")
    [] m = "col_base_unweighted"   -> BaseDir("col", tk, re, ce, "n")
    [] m = "col_base_weighted"     -> BaseDir("col", tk, re, ce, WS)
    [] m = "row_base_unweighted"   -> BaseDir("row", tk, re, ce, "n")
    [] m = "row_base_weighted"     -> BaseDir("row", tk, re, ce, WS)
    [] m = "table_base_unweighted" -> BaseDir("table", tk, re, ce, "n")
    [] m = "table_base_weighted"   -> BaseDir("table", tk, re, ce, WS)
    [] m = "col_std_dev"   -> VarDir("col", tk, re, ce)
    [] m = "row_std_dev"   -> VarDir("row", tk, re, ce)
    [] m = "table_std_dev" -> VarDir("table", tk, re, ce)
    [] m \in {"col_std_err", "col_percent_moe"}     -> SE2Dir("col", tk, re, ce)
    [] m \in {"row_std_err", "row_percent_moe"}     -> SE2Dir("row", tk, re, ce)
    [] m \in {"table_std_err", "table_percent_moe"} -> SE2Dir("table", tk, re, ce)
    [] m = "population" -> PopCount(tk, re, ce)
    [] m = "population_moe" ->
         IF IsDiff(re) \/ IsDiff(ce) THEN AnyVal ELSE SE2Dir(PopDirection, tk, re, ce)
    [] m = "col_index"  -> ColIndex(tk, re, ce)
    [] m \in {"valid_count_weighted"}   -> CountR(tk, re, ce, WS)
    [] m \in {"valid_count_unweighted"} -> CountR(tk, re, ce, "n")
    \* z and p as monotone functions of (sign, Z2): sign x Z2 orders like z, -Z2 like p
    [] m = "z_score" -> LET z == ZScore(tk, re, ce) IN
                        IF z[2] = AnyVal THEN AnyVal ELSE IF IsNaN(z[2]) THEN NaN
                        ELSE IF z[1] < 0 THEN Neg(z[2]) ELSE z[2]
    [] m = "p_value" -> LET z == ZScore(tk, re, ce) IN
                        IF z[2] = AnyVal THEN AnyVal ELSE IF IsNaN(z[2]) THEN NaN ELSE Neg(z[2])
    [] m = "mean" -> IF IsIns(re) \/ IsIns(ce) THEN NaN ELSE YStat("mean", Co(tk, re, ce))
    [] m = "stddev" -> IF IsIns(re) \/ IsIns(ce) THEN NaN ELSE YStat("stddev", Co(tk, re, ce))
    [] m = "sum"  -> SumOver(tk, re, ce)
    [] m = "col_share_sum"   -> ShareDir("col", tk, re, ce)
    [] m = "row_share_sum"   -> ShareDir("row", tk, re, ce)
    [] m = "total_share_sum" -> ShareDir("table", tk, re, ce)

KnownMeasure(m) ==
  m \in {"col_percent", "row_percent", "table_percent", "count_weighted", "count_unweighted",
         "col_base_unweighted", "col_base_weighted", "row_base_unweighted",
         "row_base_weighted", "table_base_unweighted", "table_base_weighted", "col_std_dev",
         "row_std_dev", "table_std_dev", "col_std_err", "col_percent_moe", "row_std_err",
         "row_percent_moe", "table_std_err", "table_percent_moe", "population", "col_index",
         "population_moe", "valid_count_weighted", "valid_count_unweighted", "z_score",
         "p_value"}
  \/ (m \in {"mean", "sum", "stddev", "col_share_sum", "row_share_sum", "total_share_sum"} /\ HasY)

\* 1-D (strand) measures
SMeasureKey(m, tk, re) ==
  CASE m = "percent" -> SProp(tk, re)
    [] m = "count_weighted"   -> SCountR(tk, re, WS)
    [] m = "count_unweighted" -> SCountR(tk, re, "n")
    [] m = "base_unweighted"  -> RSt(TableBase(tk, re, NoEl, "n"), "n")
    [] m = "base_weighted"    -> RSt(TableBase(tk, re, NoEl, WS), WS)
    [] m = "percent_stddev"   -> SVar(tk, re)
    [] m \in {"percent_stderr", "percent_moe"} -> SSE2(tk, re)
    [] m = "population" -> SPopProp(tk, re)
    [] m = "population_moe" -> IF IsDiff(re) THEN AnyVal
                               ELSE IF IsDate(DimR) THEN Zero ELSE SSE2(tk, re)
    [] m = "mean" -> IF IsIns(re) THEN NaN ELSE YStat("mean", Co(tk, re, NoEl))
    [] m = "sum"  -> SumOver(tk, re, NoEl)
    [] m = "share_sum" -> IF IsDiff(re) THEN Div(SSignedSum(tk, re), TableSumTotal(tk))
                          ELSE Div(SumOver(tk, re, NoEl), TableSumTotal(tk))
SKnownMeasure(m) ==
  m \in {"percent", "count_weighted", "count_unweighted", "base_unweighted", "base_weighted",
         "percent_stddev", "percent_stderr", "percent_moe", "population", "population_moe"}
  \/ (m \in {"mean", "sum", "share_sum"} /\ HasY)

\* marginal keyword -> key of a row element
RowMarginalKey(m, tk, re) ==
  CASE m = "unweighted_base" -> RowDiffNaN(re, RSt(RowBase(tk, re, AnyEl(DimC), "n"), "n"))
    [] m = "weighted_base"   -> RowDiffNaN(re, RSt(RowBase(tk, re, AnyEl(DimC), WS), WS))
    [] m = "table_proportion" ->      \* the public rows_margin_proportion
         IF IsDiff(re) /\ HasY /\ ValidCounts THEN NaN
         ELSE Div(RSt(RowBase(tk, re, AnyEl(DimC), WS), WS), RSt(TableBase(tk, re, AnyEl(DimC), WS), WS))
    [] m = "scale_mean"   -> ScaleMean(tk, DimR, re)
    [] m = "scale_median" -> ScaleMedian(tk, DimR, re)
    [] m = "scale_mean_stddev" -> ScaleVar(tk, DimR, re)
    [] m = "scale_mean_stderr" -> ScaleSE2(tk, DimR, re)
KnownMarginal(m) ==
  \/ m \in {"unweighted_base", "weighted_base", "table_proportion"} /\ ~ColsAreItems
  \/ m \in {"scale_mean", "scale_median", "scale_mean_stddev", "scale_mean_stderr"}
     /\ HasVals(DimC) /\ ~ColsAreItems

\* --- the key vector of a dimension under its sort transform -------------------
\* d = DimR or DimC.  `key(e)` gives the key of element e of d; `ok` says whether the
\* sort key can be resolved at all.
OppDC(d) == IF d = DimR THEN ColDC ELSE RowDC
OppD(d)  == IF d = DimR THEN DimC ELSE DimR
MyDC(d)  == IF d = DimR THEN RowDC ELSE ColDC

\* index (among the live subtotals of the opposing dimension) with insertion id iid
OppSubIdx(d, iid) ==
  LET od == OppD(d)  odc == OppDC(d)  L == Subtotals(od, odc) IN
  {s \in 1..Len(L) : SubtotalId(od, odc, s) = iid}

SortResolvable(d) ==
  LET o == MyDC(d).order IN
  CASE o.type = "label" -> TRUE
    [] o.type = "opposing_element" ->
         ND >= 2 /\ KnownMeasure(o.measure) /\ o.eid \in ValidIds(OppD(d))
    [] o.type = "opposing_insertion" ->
         ND >= 2 /\ KnownMeasure(o.measure) /\ IsCatLike(OppD(d)) /\ OppSubIdx(d, o.iid) # {}
    [] o.type = "marginal" -> ND >= 2 /\ d = DimR /\ KnownMarginal(o.marginal)
    [] o.type = "univariate_measure" -> ND = 1 /\ SKnownMeasure(o.measure)
    [] OTHER -> FALSE

IsSortType(o) ==
  o.type \in {"label", "opposing_element", "opposing_insertion", "marginal", "univariate_measure"}

\* label keys come as ranks computed from the label strings (TLC cannot order strings)
LabelRank(d, e) == IF IsIns(e) THEN Subtotals(d, MyDC(d))[e.ins].lrank
                   ELSE Dims[d].lrank[IF e.item # 0 THEN e.item ELSE CHOOSE x \in e.pos : TRUE]

SortKey(d, tk, e) ==
  LET o == MyDC(d).order  od == OppD(d)  odc == OppDC(d) IN
  CASE o.type = "label" -> R(LabelRank(d, e))
    [] o.type = "opposing_element" ->
         LET oe == BaseEl(od, PosOfId(od, o.eid)) IN
         IF d = DimR THEN MeasureKey(o.measure, tk, e, oe) ELSE MeasureKey(o.measure, tk, oe, e)
    [] o.type = "opposing_insertion" ->
         LET s == CHOOSE x \in OppSubIdx(d, o.iid) : TRUE
             oe == SubtotalEls(od, odc)[s] IN
         IF d = DimR THEN MeasureKey(o.measure, tk, e, oe) ELSE MeasureKey(o.measure, tk, oe, e)
    [] o.type = "marginal" -> RowMarginalKey(o.marginal, tk, e)
    [] o.type = "univariate_measure" -> SMeasureKey(o.measure, tk, e)

\* --- acceptable orders -------------------------------------------------------
RECURSIVE DedupSeq(_)
DedupSeq(s) ==
  IF s = << >> THEN << >>
  ELSE LET rest == DedupSeq(SubSeq(s, 1, Len(s) - 1))  x == s[Len(s)] IN
       IF \E i \in 1..Len(rest) : rest[i] = x THEN rest ELSE Append(rest, x)

FixedPos(d, ids) ==
  LET known == SelectSeq(ids, LAMBDA id : id \in ValidIds(d)) IN
  DedupSeq([i \in 1..Len(known) |-> PosOfId(d, known[i])])

\* all orderings (as sequences of refs) of the set S of refs that are acceptable for
\* key function k: non-NaN part monotone, NaN part last in increasing |ref| order
Arrangements(S, k(_), desc) ==
  LET n == Cardinality(S) IN
  { f \in [1..n -> S] :
      /\ \A a, b \in 1..n : a # b => f[a] # f[b]
      /\ \A a, b \in 1..n : a < b =>
           /\ (IsNaN(k(f[a])) => IsNaN(k(f[b])))
           /\ (IsNaN(k(f[a])) /\ IsNaN(k(f[b])) => Abs(f[a]) < Abs(f[b]))
           /\ (~IsNaN(k(f[a])) /\ ~IsNaN(k(f[b])) =>
                 IF desc THEN ~Less(k(f[a]), k(f[b])) ELSE ~Less(k(f[b]), k(f[a]))) }

SortedOrders(d, tk, hid, subsPruned) ==
  LET dc == MyDC(d)  o == dc.order
      desc == o.dir # "ascending"
      top == FixedPos(d, o.top)
      topSet == {top[i] : i \in 1..Len(top)}
      bot0 == FixedPos(d, o.bottom)
      bot == SelectSeq(bot0, LAMBDA p : p \notin topSet)
      botSet == {bot[i] : i \in 1..Len(bot)}
      body == ValidPos(d) \ (topSet \cup botSet)
      SE == SubtotalEls(d, dc)
      subs == IF subsPruned THEN {} ELSE {-s : s \in 1..Len(SE)}
      keyOf(r) == IF r > 0 THEN SortKey(d, tk, BaseEl(d, r)) ELSE SortKey(d, tk, SE[-r])
      vis(seq) == SelectSeq(seq, LAMBDA r : r < 0 \/ r \notin hid)
  IN  { vis((IF desc THEN sg ELSE << >>) \o top \o bd \o bot \o (IF desc THEN << >> ELSE sg)) :
          sg \in Arrangements(subs, keyOf, desc), bd \in Arrangements(body, keyOf, desc) }

\* some key is left open by the properties (AnyVal): no order is demanded
SortOpen(d, tk) ==
  LET dc == MyDC(d)  SE == SubtotalEls(d, dc) IN
  \/ \E p \in ValidPos(d) : SortKey(d, tk, BaseEl(d, p)) = AnyVal
  \/ \E s \in 1..Len(SE) : SortKey(d, tk, SE[s]) = AnyVal

AcceptableOrders(d, tk, hid, subsPruned) ==
  LET dc == MyDC(d) IN
  IF IsSortType(dc.order) /\ SortResolvable(d)
  THEN SortedOrders(d, tk, hid, subsPruned)
  ELSE LET a == AnchoredOrder(d, [dc EXCEPT !.order.type = "payload"], hid) IN
       { IF subsPruned THEN DropSubs(a) ELSE a }

OneOf(S) == [k |-> "oneof", nd |-> 0, v |-> S]
AnyOrder == [k |-> "any", nd |-> 0, v |-> 0]

OrderOut(d, tk, hid, subsPruned) ==
  IF IsSortType(MyDC(d).order) /\ SortResolvable(d) /\ SortOpen(d, tk) THEN AnyOrder
  ELSE OneOf({SignedIndexes(d, MyDC(d), o) : o \in AcceptableOrders(d, tk, hid, subsPruned)})
=============================================================================
