--------------------------- MODULE TraceRelation ---------------------------
(***************************************************************************)
(* Direction B (C05, C10): pairs of evaluations RECORDED FROM THE REAL      *)
(* LIBRARY are validated against the relation the property states.          *)
(*                                                                         *)
(* A trace is one partition evaluated twice: side "base" and side "xf".     *)
(* Values are interned: equal values carry equal integer tokens, so the     *)
(* relation is about WHERE each value sits, which is all C05 / C10 state.   *)
(*                                                                         *)
(* rel = "reindex" (C05): xf is the base analysis under display transforms; *)
(*   rb/cb and rx/cx are the row / column display orders (signed indexes)   *)
(*   the library reported for the two runs.  Every output of the xf run     *)
(*   must be the base output re-indexed through those orders.               *)
(* rel = "mirror" (C10): xf is the analysis of the transposed response;     *)
(*   each event pairs a property of the base run with its mirror property   *)
(*   of the xf run: matrices are transposes, vectors equal.                 *)
(*                                                                         *)
(* One step consumes one event.  A trace is accepted when all its events    *)
(* were consumed; the first event that does not satisfy the relation        *)
(* rejects it (verdicts are total).                                         *)
(***************************************************************************)
EXTENDS Integers, Sequences, FiniteSets, TLC, Json, IOUtils

Traces == JsonDeserialize(IOEnv.TRACE_FILE)

VARIABLES tid, l, st
vars == <<tid, l, st>>

Tr == Traces[tid]
Ev == Tr.ev[l]

NoDup(s) == \A i, j \in 1..Len(s) : i # j => s[i] # s[j]
Has(s, x) == \E i \in 1..Len(s) : s[i] = x
PosIn(s, x) == CHOOSE i \in 1..Len(s) : s[i] = x
SetOf(s) == {s[i] : i \in 1..Len(s)}

\* the display orders of the transformed run are duplicate-free selections of the
\* elements the base run displays
OrdersOK ==
  /\ NoDup(Tr.rx) /\ NoDup(Tr.cx)
  /\ \A i \in 1..Len(Tr.rx) : Has(Tr.rb, Tr.rx[i])
  /\ \A j \in 1..Len(Tr.cx) : Has(Tr.cb, Tr.cx[j])

RowSrc(p) == PosIn(Tr.rb, Tr.rx[p])     \* base position of the element shown at xf row p
ColSrc(q) == PosIn(Tr.cb, Tr.cx[q])

\* new 0-based position of the element at 0-based base position c; -1 when not displayed
NewRow(c) == IF Has(Tr.rx, Tr.rb[c + 1]) THEN PosIn(Tr.rx, Tr.rb[c + 1]) - 1 ELSE -1
NewCol(c) == IF Has(Tr.cx, Tr.cb[c + 1]) THEN PosIn(Tr.cx, Tr.cb[c + 1]) - 1 ELSE -1

\* Safe access: an output of the base run that is too short for the display order the
\* base run reported, or that names a position outside it, rejects the trace (verdicts
\* are total: a malformed recording is a REJECT, never an evaluation error).
InRows(e, p)    == RowSrc(p) <= Len(e.base)
InCols(v, q)    == ColSrc(q) <= Len(v)
ColPosOK(S)     == \A c \in S : c + 1 \in 1..Len(Tr.cb)
RowPosOK(S)     == \A c \in S : c + 1 \in 1..Len(Tr.rb)

ReindexOK(e) ==
  CASE e.op = "orders" -> OrdersOK
    [] e.op = "scalar" -> e.xf = e.base
    [] e.op = "mat" ->
         /\ Len(e.xf) = Len(Tr.rx)
         /\ \A p \in 1..Len(e.xf) :
              /\ Len(e.xf[p]) = Len(Tr.cx)
              /\ \A q \in 1..Len(Tr.cx) :
                   /\ InRows(e, p) /\ InCols(e.base[RowSrc(p)], q)
                   /\ e.xf[p][q] = e.base[RowSrc(p)][ColSrc(q)]
    [] e.op = "rowvec" ->
         /\ Len(e.xf) = Len(Tr.rx)
         /\ \A p \in 1..Len(e.xf) : InRows(e, p) /\ e.xf[p] = e.base[RowSrc(p)]
    [] e.op = "colvec" ->
         /\ Len(e.xf) = Len(Tr.cx)
         /\ \A q \in 1..Len(e.xf) : InCols(e.base, q) /\ e.xf[q] = e.base[ColSrc(q)]
    [] e.op = "rowpos" ->      \* a list of row positions, renumbered
         /\ RowPosOK(SetOf(e.base))
         /\ SetOf(e.xf) = {NewRow(c) : c \in SetOf(e.base)} \ {-1}
    [] e.op = "colpos" ->
         /\ ColPosOK(SetOf(e.base))
         /\ SetOf(e.xf) = {NewCol(c) : c \in SetOf(e.base)} \ {-1}
    [] e.op = "colposvec" ->   \* one set of column positions per column
         /\ Len(e.xf) = Len(Tr.cx)
         /\ \A q \in 1..Len(Tr.cx) :
              /\ InCols(e.base, q) /\ ColPosOK(SetOf(e.base[ColSrc(q)]))
              /\ SetOf(e.xf[q]) = {NewCol(c) : c \in SetOf(e.base[ColSrc(q)])} \ {-1}
    [] e.op = "colposmat" ->   \* a matrix whose cells are sets of column positions
         /\ Len(e.xf) = Len(Tr.rx)
         /\ \A p \in 1..Len(e.xf) :
              /\ Len(e.xf[p]) = Len(Tr.cx)
              /\ \A q \in 1..Len(Tr.cx) :
                   /\ InRows(e, p) /\ InCols(e.base[RowSrc(p)], q)
                   /\ ColPosOK(SetOf(e.base[RowSrc(p)][ColSrc(q)]))
                   /\ SetOf(e.xf[p][q])
                        = {NewCol(c) : c \in SetOf(e.base[RowSrc(p)][ColSrc(q)])} \ {-1}
    [] OTHER -> FALSE

Transposed(a, b) ==
  /\ \A i \in 1..Len(a) : \A j \in 1..Len(a[i]) :
       /\ j <= Len(b) /\ i <= Len(b[j]) /\ b[j][i] = a[i][j]
  /\ \A j \in 1..Len(b) : Len(b[j]) = Len(a)
  /\ (Len(a) > 0 => Len(b) = Len(a[1]))

(***************************************************************************)
(* C10.  The mirror table: which public property of the analysis of the    *)
(* transposed response each property of the original corresponds to.       *)
(* "T": the two values are transposes of each other (matrices) or equal    *)
(* (vectors, scalars).  A trace of kind "mirror" carries two snapshots     *)
(* (base, xf): prop -> [k, v]; one event per property of the base run.     *)
(***************************************************************************)
MirrorTable ==
  [ counts |-> "counts", unweighted_counts |-> "unweighted_counts",
    table_proportions |-> "table_proportions", table_percentages |-> "table_percentages",
    table_proportion_variances |-> "table_proportion_variances",
    table_std_dev |-> "table_std_dev", table_std_err |-> "table_std_err",
    table_proportions_moe |-> "table_proportions_moe",
    table_unweighted_bases |-> "table_unweighted_bases",
    table_weighted_bases |-> "table_weighted_bases",
    zscores |-> "zscores", pvals |-> "pvals",
    population_counts |-> "population_counts",
    population_counts_moe |-> "population_counts_moe",
    total_share_sum |-> "total_share_sum", sums |-> "sums", means |-> "means",
    stddev |-> "stddev", medians |-> "medians",
    table_base_range |-> "table_base_range", table_margin_range |-> "table_margin_range",
    row_proportions |-> "column_proportions", column_proportions |-> "row_proportions",
    row_percentages |-> "column_percentages", column_percentages |-> "row_percentages",
    row_proportion_variances |-> "column_proportion_variances",
    column_proportion_variances |-> "row_proportion_variances",
    row_std_dev |-> "column_std_dev", column_std_dev |-> "row_std_dev",
    row_std_err |-> "column_std_err", column_std_err |-> "row_std_err",
    row_proportions_moe |-> "column_proportions_moe",
    column_proportions_moe |-> "row_proportions_moe",
    row_unweighted_bases |-> "column_unweighted_bases",
    column_unweighted_bases |-> "row_unweighted_bases",
    row_weighted_bases |-> "column_weighted_bases",
    column_weighted_bases |-> "row_weighted_bases",
    row_share_sum |-> "column_share_sum", column_share_sum |-> "row_share_sum",
    rows_margin |-> "columns_margin", columns_margin |-> "rows_margin",
    rows_base |-> "columns_base", columns_base |-> "rows_base",
    rows_margin_proportion |-> "columns_margin_proportion",
    columns_margin_proportion |-> "rows_margin_proportion",
    rows_scale_mean |-> "columns_scale_mean", columns_scale_mean |-> "rows_scale_mean",
    rows_scale_median |-> "columns_scale_median",
    columns_scale_median |-> "rows_scale_median",
    rows_scale_mean_stddev |-> "columns_scale_mean_stddev",
    columns_scale_mean_stddev |-> "rows_scale_mean_stddev",
    rows_scale_mean_stderr |-> "columns_scale_mean_stderr",
    columns_scale_mean_stderr |-> "rows_scale_mean_stderr",
    rows_scale_mean_margin |-> "columns_scale_mean_margin",
    columns_scale_mean_margin |-> "rows_scale_mean_margin",
    rows_scale_median_margin |-> "columns_scale_median_margin",
    columns_scale_median_margin |-> "rows_scale_median_margin",
    row_labels |-> "column_labels", column_labels |-> "row_labels",
    row_aliases |-> "column_aliases", column_aliases |-> "row_aliases",
    row_codes |-> "column_codes", column_codes |-> "row_codes",
    inserted_row_idxs |-> "inserted_column_idxs", inserted_column_idxs |-> "inserted_row_idxs",
    diff_row_idxs |-> "diff_column_idxs", diff_column_idxs |-> "diff_row_idxs",
    row_order |-> "column_order", column_order |-> "row_order",
    rows_dimension_name |-> "columns_dimension_name",
    columns_dimension_name |-> "rows_dimension_name",
    rows_dimension_type |-> "columns_dimension_type",
    columns_dimension_type |-> "rows_dimension_type" ]

MirrorPairOK(b, x) ==
  /\ b.k = x.k
  /\ IF b.k = "mat" THEN Transposed(b.v, x.v) ELSE b.v = x.v

\* event e names a property of the base snapshot
MirrorOK(e) ==
  LET p == e.prop IN
  IF p \in DOMAIN MirrorTable /\ MirrorTable[p] \in DOMAIN Tr.xf
  THEN MirrorPairOK(Tr.base[p], Tr.xf[MirrorTable[p]])
  ELSE TRUE       \* no counterpart recorded: nothing to relate

EvOK(e) == IF Tr.rel = "mirror" THEN MirrorOK(e) ELSE ReindexOK(e)

Init == tid \in 1..Len(Traces) /\ l = 1 /\ st = "run"

Consume ==
  /\ st = "run" /\ l <= Len(Tr.ev)
  /\ IF EvOK(Ev)
     THEN l' = l + 1 /\ st' = "run"
     ELSE /\ PrintT(<<"REJECT", Tr.id, l, Ev.prop>>)
          /\ l' = l /\ st' = "rejected"
  /\ UNCHANGED tid

Accept ==
  /\ st = "run" /\ l > Len(Tr.ev)
  /\ PrintT(<<"ACCEPT", Tr.id>>)
  /\ st' = "accepted" /\ UNCHANGED <<tid, l>>

Next == Consume \/ Accept
Spec == Init /\ [][Next]_vars

\* every trace reaches a verdict: checked as "no run state without a successor"
Total == st = "run" => ENABLED Next
=============================================================================
