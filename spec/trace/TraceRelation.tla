--------------------------- MODULE TraceRelation ---------------------------
(***************************************************************************)
(* Direction B (C05, C10): pairs of evaluations RECORDED FROM THE REAL      *)
(* LIBRARY are validated against the relation the property states.          *)
(*                                                                         *)
(* A trace is one partition evaluated twice: side "base" and side "xf".     *)
(* Values are interned: equal values carry equal integer tokens, so the     *)
(* relation is about WHERE each value sits, which is all C05 / C10 state.   *)
(*                                                                         *)
(* rel = "reindex" (C05): xf is the base analysis under display transforms; *)
(*   rb/cb and rx/cx are the row / column display orders (signed indexes)   *)
(*   the library reported for the two runs.  Every output of the xf run     *)
(*   must be the base output re-indexed through those orders.               *)
(* rel = "mirror" (C10): xf is the analysis of the transposed response;     *)
(*   each event pairs a property of the base run with its mirror property   *)
(*   of the xf run: matrices are transposes, vectors equal.                 *)
(*                                                                         *)
(* One step consumes one event.  A trace is accepted when all its events    *)
(* were consumed; the first event that does not satisfy the relation        *)
(* rejects it (verdicts are total).                                         *)
(***************************************************************************)
EXTENDS Integers, Sequences, FiniteSets, TLC, Json, IOUtils

Traces == JsonDeserialize(IOEnv.TRACE_FILE)

VARIABLES tid, l, st
vars == <<tid, l, st>>

Tr == Traces[tid]
Ev == Tr.ev[l]

NoDup(s) == \A i, j \in 1..Len(s) : i # j => s[i] # s[j]
Has(s, x) == \E i \in 1..Len(s) : s[i] = x
PosIn(s, x) == CHOOSE i \in 1..Len(s) : s[i] = x
SetOf(s) == {s[i] : i \in 1..Len(s)}

\* the display orders of the transformed run are duplicate-free selections of the
\* elements the base run displays
OrdersOK ==
  /\ NoDup(Tr.rx) /\ NoDup(Tr.cx)
  /\ \A i \in 1..Len(Tr.rx) : Has(Tr.rb, Tr.rx[i])
  /\ \A j \in 1..Len(Tr.cx) : Has(Tr.cb, Tr.cx[j])

RowSrc(p) == PosIn(Tr.rb, Tr.rx[p])     \* base position of the element shown at xf row p
ColSrc(q) == PosIn(Tr.cb, Tr.cx[q])

\* new 0-based position of the element at 0-based base position c; -1 when not displayed
NewRow(c) == IF Has(Tr.rx, Tr.rb[c + 1]) THEN PosIn(Tr.rx, Tr.rb[c + 1]) - 1 ELSE -1
NewCol(c) == IF Has(Tr.cx, Tr.cb[c + 1]) THEN PosIn(Tr.cx, Tr.cb[c + 1]) - 1 ELSE -1

ReindexOK(e) ==
  CASE e.op = "orders" -> OrdersOK
    [] e.op = "scalar" -> e.xf = e.base
    [] e.op = "mat" ->
         /\ Len(e.xf) = Len(Tr.rx)
         /\ \A p \in 1..Len(e.xf) :
              /\ Len(e.xf[p]) = Len(Tr.cx)
              /\ \A q \in 1..Len(Tr.cx) : e.xf[p][q] = e.base[RowSrc(p)][ColSrc(q)]
    [] e.op = "rowvec" ->
         /\ Len(e.xf) = Len(Tr.rx)
         /\ \A p \in 1..Len(e.xf) : e.xf[p] = e.base[RowSrc(p)]
    [] e.op = "colvec" ->
         /\ Len(e.xf) = Len(Tr.cx)
         /\ \A q \in 1..Len(e.xf) : e.xf[q] = e.base[ColSrc(q)]
    [] e.op = "rowpos" ->      \* a list of row positions, renumbered
         SetOf(e.xf) = {NewRow(c) : c \in SetOf(e.base)} \ {-1}
    [] e.op = "colpos" ->
         SetOf(e.xf) = {NewCol(c) : c \in SetOf(e.base)} \ {-1}
    [] e.op = "colposmat" ->   \* a matrix whose cells are sets of column positions
         /\ Len(e.xf) = Len(Tr.rx)
         /\ \A p \in 1..Len(e.xf) :
              /\ Len(e.xf[p]) = Len(Tr.cx)
              /\ \A q \in 1..Len(Tr.cx) :
                   SetOf(e.xf[p][q])
                     = {NewCol(c) : c \in SetOf(e.base[RowSrc(p)][ColSrc(q)])} \ {-1}
    [] OTHER -> FALSE

Transposed(a, b) ==
  /\ Len(b) = (IF Len(a) = 0 THEN Len(b) ELSE Len(a[1]))
  /\ \A i \in 1..Len(a) : \A j \in 1..Len(a[i]) :
       /\ j <= Len(b) /\ i <= Len(b[j]) /\ b[j][i] = a[i][j]
  /\ \A j \in 1..Len(b) : Len(b[j]) = Len(a)

MirrorOK(e) ==
  CASE e.op = "scalar" -> e.xf = e.base
    [] e.op = "vec"    -> e.xf = e.base
    [] e.op = "mat"    -> Transposed(e.base, e.xf)
    [] OTHER -> FALSE

EvOK(e) == IF Tr.rel = "mirror" THEN MirrorOK(e) ELSE ReindexOK(e)

Init == tid \in 1..Len(Traces) /\ l = 1 /\ st = "run"

Consume ==
  /\ st = "run" /\ l <= Len(Tr.ev)
  /\ IF EvOK(Ev)
     THEN l' = l + 1 /\ st' = "run"
     ELSE /\ PrintT(<<"REJECT", Tr.id, l, Ev.prop>>)
          /\ l' = l /\ st' = "rejected"
  /\ UNCHANGED tid

Accept ==
  /\ st = "run" /\ l > Len(Tr.ev)
  /\ PrintT(<<"ACCEPT", Tr.id>>)
  /\ st' = "accepted" /\ UNCHANGED <<tid, l>>

Next == Consume \/ Accept
Spec == Init /\ [][Next]_vars

\* every trace reaches a verdict: checked as "no run state without a successor"
Total == st = "run" => ENABLED Next
=============================================================================
