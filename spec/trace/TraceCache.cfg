SPECIFICATION Spec
PROPERTY CacheStable
CHECK_DEADLOCK FALSE
