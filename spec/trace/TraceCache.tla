----------------------------- MODULE TraceCache -----------------------------
(***************************************************************************)
(* Direction B for C18: the event stream of the `lazyproperty` hook        *)
(* (src/cr/cube/util.py, guarded by CRUNCH_CUBE_VERIF) is validated        *)
(* against the cache sub-model of Session.tla:                             *)
(*                                                                         *)
(*   Compute(o, p, v)  the getter of property p ran on object o and its    *)
(*                     result v was stored; enabled only if nothing (or    *)
(*                     None) is stored for (o, p)                          *)
(*   Hit(o, p, v)      the stored value was returned; enabled only if the  *)
(*                     value v (possibly None, after a compute that gave   *)
(*                     None) is stored for (o, p)                          *)
(*                                                                         *)
(* Objects are numbered by the recorder in order of first appearance;      *)
(* values are identified by a token (None = 0).  Hence: a property is      *)
(* computed at most once per object unless it evaluated to None, a hit     *)
(* never precedes its compute, a hit returns the very value that was       *)
(* stored, and objects never share cache entries.                          *)
(*                                                                         *)
(* A process-lifetime object (Tr.pre: the members of cr.cube.enums'          *)
(* DIMENSION_TYPE are module-level singletons that every cube shares) may  *)
(* have filled its cache before the recording started: the first event of  *)
(* one of its properties may be a hit, which then fixes the stored value.  *)
(*                                                                         *)
(* One step consumes one event; the first event the model does not allow   *)
(* rejects the trace, naming the event index.                              *)
(***************************************************************************)
EXTENDS Integers, Sequences, FiniteSets, TLC, Json, IOUtils

Traces == JsonDeserialize(IOEnv.TRACE_FILE)

VARIABLES tid, l, st, cache
vars == <<tid, l, st, cache>>

Tr == Traces[tid]
Ev == Tr.ev[l]       \* [o, p, k, v]: object number, property name, kind, value token

Key(e) == <<e.o, e.p>>
Stored(e) == IF Key(e) \in DOMAIN cache THEN cache[Key(e)] ELSE 0

Allowed(e) ==
  CASE e.k = "compute" -> Stored(e) = 0 /\ e.v # 0
    [] e.k = "compute-none" -> Stored(e) = 0 /\ e.v = 0
    \* (whether a None result is kept or computed again on the next read is an
    \* implementation choice no caller can observe: both are allowed)
    [] e.k = "hit" -> \/ Key(e) \in DOMAIN cache /\ cache[Key(e)] = e.v
                      \/ Tr.pre /\ Key(e) \notin DOMAIN cache /\ e.v # 0
    [] OTHER -> FALSE

Init == tid \in 1..Len(Traces) /\ l = 1 /\ st = "run" /\ cache = << >>

Consume ==
  /\ st = "run" /\ l <= Len(Tr.ev)
  /\ IF Allowed(Ev)
     THEN /\ l' = l + 1 /\ st' = "run"
          /\ cache' = IF Ev.k \in {"compute", "compute-none"}
                         \/ (Ev.k = "hit" /\ Key(Ev) \notin DOMAIN cache)
                      THEN [x \in DOMAIN cache \cup {Key(Ev)} |->
                              IF x = Key(Ev) THEN Ev.v ELSE cache[x]]
                      ELSE cache
     ELSE /\ PrintT(<<"REJECT", Tr.id, l, Ev.p>>)
          /\ l' = l /\ st' = "rejected" /\ cache' = cache
  /\ UNCHANGED tid

Accept ==
  /\ st = "run" /\ l > Len(Tr.ev)
  /\ PrintT(<<"ACCEPT", Tr.id>>)
  /\ st' = "accepted" /\ UNCHANGED <<tid, l, cache>>

Next == Consume \/ Accept
Spec == Init /\ [][Next]_vars

\* the cache only grows and never changes a stored (non-None) value
CacheStable == [][\A x \in DOMAIN cache :
                    x \in DOMAIN cache' /\ (cache[x] = 0 \/ cache'[x] = cache[x])]_vars
=============================================================================
