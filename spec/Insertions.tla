----------------------------- MODULE Insertions ----------------------------
(***************************************************************************)
(* Insertion dictionaries (subtotals and differences) of a dimension: the  *)
(* validity gauntlet, the resolution of addend / subtrahend ids to payload *)
(* positions (stale and missing ids contribute nothing), anchors, and the  *)
(* ids of insertions that come without one.                                *)
(*                                                                         *)
(* An insertion record (as written by the user; serialised verbatim into   *)
(* the transforms / view JSON by the harness):                             *)
(*   fn      "subtotal" or anything else                                   *)
(*   name    label; noname = TRUE: the "name" key is absent                *)
(*   anchor  [k, v, s, lo]: k = "kw" (string s, lower-cased lo), "int"     *)
(*           (id v), "strint" (id v written as a string), "null";          *)
(*           noanchor = TRUE: the "anchor" key is absent                   *)
(*   pos     sequence of ids (addends), neg sequence of ids (subtrahends)  *)
(*   style   "args": addends in "args"; "kwargs": in kwargs.positive       *)
(*   id      insertion id, 0 = the "id" key is absent                      *)
(*   hide    TRUE: flagged hidden                                          *)
(***************************************************************************)
EXTENDS Tabulate

ValidIds(d) == {Dims[d].ids[p] : p \in ValidPos(d)}
PosOfId(d, id) == CHOOSE p \in ValidPos(d) : Dims[d].ids[p] = id

SeqRange(s) == {s[i] : i \in DOMAIN s}

\* kwargs.positive wins over args when non-empty; the harness writes exactly one
InsPos(ins) == SeqRange(ins.pos)
InsNeg(ins) == SeqRange(ins.neg)

\* the gauntlet: which insertion dicts define a subtotal at all
LiveIns(d, ins) ==
  /\ ins.fn = "subtotal"
  /\ ~ins.hide
  /\ ~ins.noanchor /\ ~ins.noname
  /\ (InsPos(ins) \cup InsNeg(ins)) # {}
  /\ (InsPos(ins) \cup InsNeg(ins)) \cap ValidIds(d) # {}

\* insertions apply to categorical dimensions only
CanInsert(d) == IsCatLike(d)

\* indexes (into the list as written) of the insertions that define subtotals
LiveIdx(d, insSeq) ==
  IF CanInsert(d)
  THEN SelectSeq([i \in 1..Len(insSeq) |-> i], LAMBDA i : LiveIns(d, insSeq[i]))
  ELSE << >>
LiveSeq(d, insSeq) ==
  LET L == LiveIdx(d, insSeq) IN [s \in 1..Len(L) |-> insSeq[L[s]]]

\* the element a live insertion denotes: signed sets of payload positions
ResolveIns(d, ins, idx) ==
  [ pos  |-> {PosOfId(d, id) : id \in InsPos(ins) \cap ValidIds(d)},
    neg  |-> {PosOfId(d, id) : id \in InsNeg(ins) \cap ValidIds(d)},
    item |-> 0,
    ins  |-> idx ]

\* where a subtotal goes: top, bottom, or after the element with a given id;
\* null, stale and missing anchors go to the bottom
Place(d, ins) ==
  LET a == ins.anchor IN
  CASE a.k = "null" -> [at |-> "bottom", id |-> 0]
    [] a.k = "kw"   -> [at |-> a.lo, id |-> 0]
    [] OTHER        -> IF a.v \in ValidIds(d) THEN [at |-> "after", id |-> a.v]
                       ELSE [at |-> "bottom", id |-> 0]

(***************************************************************************)
(* Insertion ids.  When every live insertion dict carries an id, ids are   *)
(* as given.  Otherwise an insertion without id is numbered                *)
(*   - defined on the variable (view): by its 1-based rank in payload      *)
(*     display order (the order the subtotals appear in when the base      *)
(*     elements are in payload order and nothing is hidden);               *)
(*   - defined in the analysis transforms: by its 1-based definition       *)
(*     position among the live insertions.                                 *)
(* `rank` is the sequence of live-subtotal indexes in payload display      *)
(* order (computed by Collate).                                            *)
(***************************************************************************)
AllHaveIds(L) == \A s \in 1..Len(L) : L[s].id # 0
RankIn(rank, s) == CHOOSE r \in 1..Len(rank) : rank[r] = s
InsIdOf(L, fromView, rank, s) ==
  IF L[s].id # 0 THEN L[s].id
  ELSE IF fromView THEN RankIn(rank, s) ELSE s
=============================================================================
