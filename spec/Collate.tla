------------------------------ MODULE Collate -------------------------------
(***************************************************************************)
(* Anchored display order of a dimension (C07): base elements in payload   *)
(* order or in explicit order, subtotals at their anchors, hidden elements *)
(* removed.  A display order is a sequence of references:                  *)
(*    n > 0  : the base element at payload position n                      *)
(*    n < 0  : the (-n)-th live subtotal in definition order               *)
(*                                                                         *)
(* A dimension configuration record dc has fields                          *)
(*    vins   insertion records defined on the variable (view)              *)
(*    hasx   the analysis transforms carry an "insertions" key ...         *)
(*    xins   ... with these insertion records (they replace the view ones) *)
(*    hide   set of element ids flagged hidden                             *)
(*    prune  prune empty elements                                          *)
(*    order  [type, ids, ...] the order transform                          *)
(***************************************************************************)
EXTENDS Insertions

InsSource(dc) == IF dc.hasx THEN dc.xins ELSE dc.vins
FromView(dc)  == ~dc.hasx

\* live subtotals of dimension d in definition order, and the elements they denote
Subtotals(d, dc) == LiveSeq(d, InsSource(dc))
SubtotalEls(d, dc) ==
  LET L == Subtotals(d, dc) IN [s \in 1..Len(L) |-> ResolveIns(d, L[s], s)]

\* --- base element sequence ---------------------------------------------
RECURSIVE Dedup(_)
Dedup(s) ==
  IF s = << >> THEN << >>
  ELSE LET rest == Dedup(SubSeq(s, 1, Len(s) - 1))
           x == s[Len(s)]
       IN  IF \E i \in 1..Len(rest) : rest[i] = x THEN rest ELSE Append(rest, x)

\* explicit order: listed ids that exist (first mention wins), then the rest in
\* payload order
ExplicitBase(d, ids) ==
  LET known  == SelectSeq(ids, LAMBDA id : id \in ValidIds(d))
      listed == Dedup([i \in 1..Len(known) |-> PosOfId(d, known[i])])
      rest   == SelectSeq(ValidSeq(d), LAMBDA p : \A i \in 1..Len(listed) : listed[i] # p)
  IN  listed \o rest

IsDerivedPos(d, p) == Dims[d].der[p].is
NonDerivedSeq(d) == SelectSeq(ValidSeq(d), LAMBDA p : ~IsDerivedPos(d, p))

\* derived items placed at a given spot (payload order among themselves).  A derived
\* item whose anchor is unknown, absent, or itself derived goes to the bottom.
DerPlace(d, p) ==
  LET r == Dims[d].der[p] IN
  IF r.at \in {"top", "bottom"} THEN r.at
  ELSE IF r.at \in {"before", "after"} /\ r.ref \in ValidPos(d) /\ ~IsDerivedPos(d, r.ref)
       THEN r.at ELSE "bottom"
DerivedAtSpot(d, where, ref) ==
  SelectSeq(ValidSeq(d), LAMBDA p : IsDerivedPos(d, p) /\ DerPlace(d, p) = where
                                    /\ (where \in {"before", "after"} => Dims[d].der[p].ref = ref))

\* explicit order: only the base (non-derived) items are listed / left over; every
\* derived item is then re-placed at its own anchor
ExplicitBaseND(d, ids) ==
  LET known  == SelectSeq(ids, LAMBDA id : id \in ValidIds(d) /\ ~IsDerivedPos(d, PosOfId(d, id)))
      listed == Dedup([i \in 1..Len(known) |-> PosOfId(d, known[i])])
      rest   == SelectSeq(NonDerivedSeq(d), LAMBDA p : \A i \in 1..Len(listed) : listed[i] # p)
  IN  listed \o rest

RECURSIVE WithDerived(_, _)
WithDerived(d, base) ==
  IF base = << >> THEN << >>
  ELSE DerivedAtSpot(d, "before", Head(base)) \o << Head(base) >>
       \o DerivedAtSpot(d, "after", Head(base)) \o WithDerived(d, Tail(base))

BaseSeq(d, dc) ==
  IF dc.order.type = "explicit"
  THEN DerivedAtSpot(d, "top", 0) \o WithDerived(d, ExplicitBaseND(d, dc.order.ids))
       \o DerivedAtSpot(d, "bottom", 0)
  ELSE ValidSeq(d)

\* --- anchored order -------------------------------------------------------
\* subtotal indexes (definition order) placed at a given spot
At(d, dc, where, id) ==
  LET L == Subtotals(d, dc) IN
  SelectSeq([s \in 1..Len(L) |-> s],
            LAMBDA s : LET pl == Place(d, L[s]) IN
                       pl.at = where /\ (where = "after" => pl.id = id))

NegSeq(s) == [i \in 1..Len(s) |-> -s[i]]

RECURSIVE WithAfter(_, _, _)
WithAfter(d, dc, base) ==
  IF base = << >> THEN << >>
  ELSE << Head(base) >> \o NegSeq(At(d, dc, "after", Dims[d].ids[Head(base)]))
       \o WithAfter(d, dc, Tail(base))

\* hid = set of payload positions removed from display (hidden or pruned)
AnchoredOrder(d, dc, hid) ==
  LET full == NegSeq(At(d, dc, "top", 0)) \o WithAfter(d, dc, BaseSeq(d, dc))
              \o NegSeq(At(d, dc, "bottom", 0))
  IN  SelectSeq(full, LAMBDA r : r < 0 \/ r \notin hid)

\* subtotal indexes in payload display order: base elements in payload order, nothing
\* hidden
PayloadRank(d, dc) ==
  LET full == NegSeq(At(d, dc, "top", 0)) \o WithAfter(d, dc, ValidSeq(d))
              \o NegSeq(At(d, dc, "bottom", 0))
      subs == SelectSeq(full, LAMBDA r : r < 0)
  IN  [i \in 1..Len(subs) |-> -subs[i]]

SubtotalId(d, dc, s) == InsIdOf(Subtotals(d, dc), FromView(dc), PayloadRank(d, dc), s)

\* --- renderings -------------------------------------------------------------
\* index of payload position p among the valid elements (0-based)
ValidIndex(d, p) == Cardinality({q \in ValidPos(d) : q < p})

SignedIndexes(d, dc, ord) ==
  LET n == Len(Subtotals(d, dc)) IN
  [i \in 1..Len(ord) |-> IF ord[i] > 0 THEN ValidIndex(d, ord[i]) ELSE (-ord[i]) - 1 - n]

\* the 'ins_N' rendering: base elements by index, subtotals by insertion id
BogusIds(d, dc, ord) ==
  [i \in 1..Len(ord) |-> IF ord[i] > 0 THEN [b |-> ValidIndex(d, ord[i]), s |-> 0]
                          ELSE [b |-> -1, s |-> SubtotalId(d, dc, -ord[i])]]

\* elements denoted by a display order
ElsOf(d, dc, ord) ==
  LET SE == SubtotalEls(d, dc) IN
  [i \in 1..Len(ord) |-> IF ord[i] > 0 THEN BaseEl(d, ord[i]) ELSE SE[-ord[i]]]
=============================================================================
