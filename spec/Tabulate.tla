------------------------------ MODULE Tabulate ------------------------------
(***************************************************************************)
(* Respondent-level meaning of counts, bases and margins.                  *)
(*                                                                         *)
(* One rule for all nine row x column type pairings, 1-D, 2-D and 3-D:     *)
(* a respondent contributes to a quantity with the product, over the       *)
(* dimensions of the partition, of an indicator that is taken either in    *)
(* "sel" mode (member of the element: the category, or -- for a signed     *)
(* subtotal -- +1 on addends and -1 on subtrahends; selected the MR item)  *)
(* or in "own" mode (valid on that dimension at that element: any valid    *)
(* category; non-missing on that MR item; the array item itself).          *)
(*     count      = rows sel, columns sel                                  *)
(*     row base   = rows sel, columns own                                  *)
(*     col base   = rows own, columns sel                                  *)
(*     table base = rows own, columns own                                  *)
(* The table dimension of a 3-D response is always in sel mode.            *)
(***************************************************************************)
EXTENDS Payload

(***************************************************************************)
(* Elements.  One record shape for every kind of element so sequences of   *)
(* elements are homogeneous: `item` for array-like dimensions, `pos`/`neg` *)
(* (sets of payload positions) for categorical ones, `ins` = 0 for a base  *)
(* element and the 1-based definition index for an inserted subtotal.      *)
(***************************************************************************)
BaseEl(d, e) ==
  IF IsCatLike(d) THEN [pos |-> {e}, neg |-> {}, item |-> 0, ins |-> 0]
  ELSE [pos |-> {}, neg |-> {}, item |-> e, ins |-> 0]

BaseEls(d) == [i \in 1..Len(ValidSeq(d)) |-> BaseEl(d, ValidSeq(d)[i])]

IsIns(e)  == e.ins # 0
IsDiff(e) == e.neg # {}

\* slice roles
DimT == IF ND = 3 THEN 1 ELSE 0
DimR == IF ND = 3 THEN 2 ELSE IF ND >= 1 THEN 1 ELSE 0
DimC == IF ND = 3 THEN 3 ELSE IF ND = 2 THEN 2 ELSE 0

CatInd(a, e, d, mode) ==
  IF mode = "own" THEN (IF a \in ValidPos(d) THEN 1 ELSE 0)
  ELSE (IF a \in e.pos THEN 1 ELSE 0) - (IF a \in e.neg THEN 1 ELSE 0)

\* indicator of profile p on dimension d for coordinates co in the given mode
\* mode "any": the dimension places no condition at all (unconditional counts)
Ind(p, d, co, mode) ==
  LET e == co[d]  v == VarOf(d) IN
  IF mode = "any" THEN 1 ELSE
  CASE Kind(d) = "cat"     -> CatInd(p[v][1], e, d, mode)
    [] Kind(d) = "cacat"   -> CatInd(p[v][co[ItemsDim(v)].item], e, d, mode)
    [] Kind(d) = "mr"      -> IF mode = "own"
                              THEN (IF p[v][e.item] \in {SEL, OTH} THEN 1 ELSE 0)
                              ELSE (IF p[v][e.item] = SEL THEN 1 ELSE 0)
    [] Kind(d) = "caitems" -> 1
    [] Kind(d) = "numarr"  -> IF p[v][e.item] # NA THEN 1 ELSE 0

\* numeric answer relevant to coordinates co
YAt(p, co) ==
  IF HasNumArr THEN p[VarOf(NumArrDim)][co[NumArrDim].item]
  ELSE IF HasY THEN p["y"][1] ELSE NA

\* In a response that carries valid counts for a numeric measure, the counts
\* the library reports are the valid counts: respondents with a value.
YOk(p, co) == IF HasY /\ ValidCounts THEN YAt(p, co) # NA ELSE TRUE

RECURSIVE IndProd(_, _, _, _)
IndProd(p, co, md, d) ==
  IF d > ND THEN 1
  ELSE LET x == Ind(p, d, co, md[d]) IN
       IF x = 0 THEN 0 ELSE x * IndProd(p, co, md, d + 1)

\* st in {"n", "w", "w2"}
StatOf(k, st) == CASE st = "n" -> 1 [] st = "w" -> k.w [] st = "w2" -> k.w * k.w

Wt(co, md, st) ==
  SumResp(LAMBDA k : IF YOk(k.p, co) THEN IndProd(k.p, co, md, 1) * StatOf(k, st) ELSE 0)

\* sums of the numeric measure over the cell's respondents
WtY(co, md)  == SumResp(LAMBDA k : IF YOk(k.p, co)
                   THEN IndProd(k.p, co, md, 1) * k.w * YAt(k.p, co) ELSE 0)

(***************************************************************************)
(* Partition-level quantities.  tk = table element (any value when ND < 3),*)
(* re / ce = row / column element (ce unused when ND = 1).                 *)
(***************************************************************************)
Co(tk, re, ce) ==
  [d \in DimSet |-> IF d = DimT THEN tk ELSE IF d = DimR THEN re ELSE ce]

Md(mr, mc) ==
  [d \in DimSet |-> IF d = DimT THEN "sel" ELSE IF d = DimR THEN mr ELSE mc]

Count(tk, re, ce, st)     == Wt(Co(tk, re, ce), Md("sel", "sel"), st)
RowBase(tk, re, ce, st)   == Wt(Co(tk, re, ce), Md("sel", "own"), st)
ColBase(tk, re, ce, st)   == Wt(Co(tk, re, ce), Md("own", "sel"), st)
TableBase(tk, re, ce, st) == Wt(Co(tk, re, ce), Md("own", "own"), st)

NoEl == [pos |-> {}, neg |-> {}, item |-> 0, ins |-> 0]
TableEls == IF ND = 3 THEN BaseEls(1) ELSE << NoEl >>
NParts   == Len(TableEls)
=============================================================================
