------------------------------- MODULE Survey -------------------------------
(***************************************************************************)
(* The survey behind a cube response.                                      *)
(*                                                                         *)
(* State: `data`, a bag of respondents.  A respondent is a key             *)
(* [p |-> answer profile, w |-> weight]; data[k] is how many respondents   *)
(* share that key.  The only action is Interview(k, m): m more            *)
(* respondents with key k.                                                 *)
(*                                                                         *)
(* Everything the server sends (Payload.tla) and everything the library    *)
(* must report (Tabulate.tla, Derived.tla) is derived from this state.     *)
(***************************************************************************)
EXTENDS Rat, SequencesExt, FiniteSetsExt, TLC

CONSTANTS
  Dims,      \* apparent dimensions of the response, in response order; see below
  Weights,   \* set of positive integer weights a respondent may carry
  MaxResp,   \* bound on the number of respondents (state constraint)
  YVals,     \* integer values of the numeric measure variable; {} = count cube
  Weighted,  \* TRUE: the response carries a weighted `count` measure
  ValidCounts, \* TRUE: the response carries valid-count measures for its numeric measure
  SumNaN,    \* TRUE: the server reports the sum of a cell without values as missing
             \* (FALSE: as 0, the usual case)
  Population, \* target population argument (NA = not given)
  Filter,    \* filter statistics of the response, see Derived!Fraction
  Overlaps,  \* TRUE: the response carries overlap / valid_overlap measures for its MR columns
  SimMode,   \* TRUE under `tlc -simulate`: one random respondent per step
  WDen,      \* weight denominator: a respondent with key weight w carries the weight
             \* w / WDen (1: integer weights; 2, 4: fractional weights that binary
             \* floating point represents exactly)
  Batches    \* set of positive integers: how many identical respondents one Interview
             \* step may add ({1} in exhaustive search; larger batches in simulation give
             \* tables with enough cases for significance tests to fire)

(***************************************************************************)
(* A dimension record:                                                     *)
(*   kind  "cat"      categorical variable (also cat-date, text/datetime/  *)
(*                    binned enum: they differ in the envelope only)       *)
(*         "mr"       multiple-response items (the selection axis is       *)
(*                    implied and follows it in the payload)               *)
(*         "caitems"  sub-variables of a categorical array                 *)
(*         "cacat"    categories of a categorical array                    *)
(*         "numarr"   items of a numeric array (reported first, stored     *)
(*                    innermost in the payload)                            *)
(*   var   name of the survey variable the dimension comes from            *)
(*   n     number of elements in the payload, missing ones included        *)
(*   miss  set of payload positions (1-based) flagged missing              *)
(*   ids   element ids by payload position                                 *)
(*   vals  numeric value by payload position (NA = none)                   *)
(*   date  TRUE for a categorical-date dimension                           *)
(*   der   per payload position: [is, of, at, ref] -- is = TRUE for a      *)
(*         DERIVED item of an MR dimension (an "any of these selected"     *)
(*         item the server computes from the base items `of` and delivers  *)
(*         in the payload), anchored `at` top / bottom / before / after    *)
(*         the item at position `ref`                                      *)
(***************************************************************************)

NA == -99            \* "no value" for numeric answers and numeric values
NoPopulation == NA
SEL == 1  OTH == 2  MIS == 3   \* positions on the MR selection axis

VARIABLE data

ND == Len(Dims)
DimSet == 1..ND
Kind(d) == Dims[d].kind
VarOf(d) == Dims[d].var
IsCatLike(d) == Kind(d) \in {"cat", "cacat"}
IsItemLike(d) == Kind(d) \in {"mr", "caitems", "numarr"}
HasNumArr == \E d \in DimSet : Kind(d) = "numarr"
NumArrDim == CHOOSE d \in DimSet : Kind(d) = "numarr"
HasY == YVals # {}           \* a numeric measure is present (numeric array or `y`)

DimVars == {VarOf(d) : d \in DimSet}
VarSet  == DimVars \cup (IF HasY /\ ~HasNumArr THEN {"y"} ELSE {})

ItemsDim(v) == CHOOSE d \in DimSet : VarOf(d) = v /\ Kind(d) = "caitems"
CatsDim(v)  == CHOOSE d \in DimSet : VarOf(d) = v /\ Kind(d) = "cacat"
DimOfVar(v) == CHOOSE d \in DimSet : VarOf(d) = v

ValidPos(d) == (1..Dims[d].n) \ Dims[d].miss
\* valid positions in payload order
ValidSeq(d) == SelectSeq([i \in 1..Dims[d].n |-> i], LAMBDA i : i \notin Dims[d].miss)

(***************************************************************************)
(* Answers.  Every answer is a sequence of integers so that profiles are   *)
(* homogeneous: a categorical answer is <<position>>, an MR answer gives   *)
(* SEL/OTH/MIS per item, a CA answer a category position per item, a       *)
(* numeric array a value (or NA) per item, the measure `y` is <<value>>.   *)
(***************************************************************************)
SeqsOf(n, S) == [1..n -> S]

\* the answer a derived "any selected" item has, given the answers to its base items
DerivedAnswer(a, of) ==
  IF \E j \in of : a[j] = SEL THEN SEL
  ELSE IF \A j \in of : a[j] = MIS THEN MIS ELSE OTH

Answers(v) ==
  IF v = "y" THEN {<<x>> : x \in YVals \cup {NA}}
  ELSE LET d == DimOfVar(v) IN
    CASE Kind(d) = "cat"    -> {<<c>> : c \in 1..Dims[d].n}
      [] Kind(d) = "mr"     -> {a \in SeqsOf(Dims[d].n, {SEL, OTH, MIS}) :
                                   \A i \in 1..Dims[d].n :
                                     Dims[d].der[i].is => a[i] = DerivedAnswer(a, Dims[d].der[i].of)}
      [] Kind(d) = "numarr" -> SeqsOf(Dims[d].n, YVals \cup {NA})
      [] OTHER              -> SeqsOf(Dims[ItemsDim(v)].n, 1..Dims[CatsDim(v)].n)

RECURSIVE ProfilesOver(_)
ProfilesOver(S) ==
  IF S = {} THEN { [x \in {} |-> <<>>] }
  ELSE LET v == CHOOSE x \in S : TRUE
           rest == ProfilesOver(S \ {v})
       IN  { [x \in S |-> IF x = v THEN a ELSE r[x]] : a \in Answers(v), r \in rest }

ProfileSet == ProfilesOver(VarSet)
KeySet == [p : ProfileSet, w : Weights]

(***************************************************************************)
(* State machine                                                           *)
(***************************************************************************)
NResp == MapThenSumSet(LAMBDA k : data[k], DOMAIN data)

Interview(k, m) ==
  data' = IF k \in DOMAIN data
          THEN [data EXCEPT ![k] = @ + m]
          ELSE [x \in DOMAIN data \cup {k} |-> IF x = k THEN m ELSE data[x]]

Init == data = [x \in {} |-> 0]
\* Exhaustive search interviews every possible respondent next.  In simulation TLC
\* evaluates the invariant on every successor before it picks one, so a single random
\* respondent (batch) is offered per step to keep one emission per step.
Next == IF SimMode
        THEN LET m0 == RandomElement(Batches)
                 m  == IF NResp + m0 <= MaxResp THEN m0 ELSE 1
             IN  NResp + m <= MaxResp /\ Interview(RandomElement(KeySet), m)
        ELSE \E k \in KeySet, m \in Batches : NResp + m <= MaxResp /\ Interview(k, m)
Spec == Init /\ [][Next]_data

Bounded == NResp <= MaxResp

TypeOK == /\ DOMAIN data \subseteq KeySet
          /\ \A k \in DOMAIN data : data[k] \in 1..MaxResp

(***************************************************************************)
(* Sums over respondents                                                   *)
(***************************************************************************)
\* Sum over respondents of f(key), each key counted with multiplicity
SumResp(f(_)) == MapThenSumSet(LAMBDA k : data[k] * f(k), DOMAIN data)

TotalW == SumResp(LAMBDA k : k.w)

\* the weighted statistic of the response ("n" for an unweighted response)
WS == IF Weighted THEN "w" ELSE "n"

\* The sums above are integers: sums of the KEY weights.  A respondent's weight is
\* k.w / WDen, so a statistic st is worth its integer sum over WScale(st).
WScale(st) == CASE st = "n" -> 1 [] st = "w" -> WDen [] st = "w2" -> WDen * WDen
RSt(x, st)  == Norm(<<x, WScale(st)>>)
RW(x)      == Norm(<<x, WDen>>)        \* a sum of weights, or of weight x value
\* the integer sum (at the scale of statistic st) behind a finite rational RSt(x, st)
IntAt(r, st) == r[1] * (WScale(st) \div r[2])

=============================================================================
