-------------------------------- MODULE View --------------------------------
(***************************************************************************)
(* The analysis configuration (view insertions + transforms) under which a *)
(* partition is displayed, and the displayed row / column element          *)
(* sequences it yields.  The configuration is chosen at Init from the      *)
(* finite list Configs of the scenario and never changes within a          *)
(* behaviour (Session.tla adds the editing actions).                       *)
(***************************************************************************)
EXTENDS Collate, Derived

CONSTANT Configs      \* sequence of [rows |-> dc, cols |-> dc] records

VARIABLE ci           \* index of the configuration in force

NoOrder == [type |-> "payload", ids |-> << >>]
DefaultDC == [vins |-> << >>, hasx |-> FALSE, xins |-> << >>, hide |-> {},
              prune |-> FALSE, order |-> NoOrder]
DefaultConfig == [rows |-> DefaultDC, cols |-> DefaultDC]

Cfg  == Configs[ci]
RowDC == Cfg.rows
ColDC == Cfg.cols

vars == <<data, ci>>
InitV == Init /\ ci \in 1..Len(Configs)
NextV == Next /\ UNCHANGED ci
SpecV == InitV /\ [][NextV]_vars

\* payload positions hidden by an explicit hide transform
HiddenPos(d, dc) == {p \in ValidPos(d) : Dims[d].ids[p] \in dc.hide}

RowOrder == IF ND >= 1 THEN AnchoredOrder(DimR, RowDC, HiddenPos(DimR, RowDC)) ELSE << >>
ColOrder == IF ND >= 2 THEN AnchoredOrder(DimC, ColDC, HiddenPos(DimC, ColDC)) ELSE << >>

RE == IF ND >= 1 THEN ElsOf(DimR, RowDC, RowOrder) ELSE << >>
CE == IF ND >= 2 THEN ElsOf(DimC, ColDC, ColOrder) ELSE << >>
=============================================================================
