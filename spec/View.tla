-------------------------------- MODULE View --------------------------------
(***************************************************************************)
(* The analysis configuration (view insertions + transforms) under which a *)
(* partition is displayed, and the displayed row / column element          *)
(* sequences it yields.  The configuration is chosen at Init from the      *)
(* finite list Configs of the scenario and never changes within a          *)
(* behaviour (Session.tla adds the editing actions).                       *)
(***************************************************************************)
EXTENDS Collate, Derived

CONSTANT Configs      \* sequence of [rows |-> dc, cols |-> dc] records

VARIABLE cfg          \* the configuration in force (a member of Configs; field idx = its
                      \* 1-based position there, echoed to the replayer)

NoOrder == [type |-> "payload", ids |-> << >>, measure |-> "", marginal |-> "", eid |-> 0,
            iid |-> 0, dir |-> "descending", top |-> << >>, bottom |-> << >>]
NoSmoother == [has |-> FALSE, win |-> NA]
DefaultDC == [vins |-> << >>, hasx |-> FALSE, xins |-> << >>, hide |-> {},
              prune |-> FALSE, order |-> NoOrder, smoother |-> NoSmoother]
DefaultConfig == [idx |-> 1, rows |-> DefaultDC, cols |-> DefaultDC]

Cfg  == cfg
ci   == cfg.idx
RowDC == Cfg.rows
ColDC == Cfg.cols

vars == <<data, cfg>>
InitV == Init /\ cfg \in {Configs[i] : i \in 1..Len(Configs)}
NextV == Next /\ UNCHANGED cfg
SpecV == InitV /\ [][NextV]_vars

\* payload positions hidden by an explicit hide transform
HiddenPos(d, dc) == {p \in ValidPos(d) : Dims[d].ids[p] \in dc.hide}

(***************************************************************************)
(* C09: emptiness is decided from UNWEIGHTED counts only.  A base vector   *)
(* is empty when its unweighted pruning base is zero over every base       *)
(* element of the opposing dimension.  The base is the vector's own-       *)
(* direction base (members of the vector, valid on the opposing dimension) *)
(* except that an MR vector counts selected and not-selected answers --    *)
(* unless the opposing dimension is MR too, where only "selected" counts   *)
(* (the library's documented deviation for MR x MR).                       *)
(***************************************************************************)
RowPruneModes ==
  IF Kind(DimR) = "mr" /\ ND >= 2 /\ Kind(DimC) = "mr" THEN <<"sel", "own">>
  ELSE IF Kind(DimR) = "mr" THEN <<"own", "sel">> ELSE <<"sel", "own">>
ColPruneModes ==
  IF Kind(DimC) = "mr" /\ Kind(DimR) = "mr" THEN <<"own", "sel">>
  ELSE IF Kind(DimC) = "mr" THEN <<"sel", "own">> ELSE <<"own", "sel">>

OppEls(d) == IF ND >= 2 THEN BaseEls(d) ELSE << NoEl >>

EmptyRow(tk, p) ==
  LET re == BaseEl(DimR, p)  C == OppEls(IF ND >= 2 THEN DimC ELSE DimR) IN
  IF ND = 1
  THEN Wt(Co(tk, re, NoEl), Md(IF Kind(DimR) = "mr" THEN "own" ELSE "sel", "sel"), "n") = 0
  ELSE \A j \in 1..Len(C) :
         Wt(Co(tk, re, C[j]), Md(RowPruneModes[1], RowPruneModes[2]), "n") = 0
EmptyCol(tk, p) ==
  LET ce == BaseEl(DimC, p)  RR == BaseEls(DimR) IN
  \A i \in 1..Len(RR) :
    Wt(Co(tk, RR[i], ce), Md(ColPruneModes[1], ColPruneModes[2]), "n") = 0

EmptyRows(tk) == {p \in ValidPos(DimR) : EmptyRow(tk, p)}
EmptyCols(tk) == IF ND >= 2 THEN {p \in ValidPos(DimC) : EmptyCol(tk, p)} ELSE {}

RowHid(tk) == HiddenPos(DimR, RowDC) \cup (IF RowDC.prune THEN EmptyRows(tk) ELSE {})
ColHid(tk) == IF ND >= 2
              THEN HiddenPos(DimC, ColDC) \cup (IF ColDC.prune THEN EmptyCols(tk) ELSE {})
              ELSE {}

\* Subtotals are never pruned individually: all subtotals of a dimension disappear
\* exactly when pruning is on for the OPPOSING dimension and every opposing base
\* vector is empty.
RowSubsPruned(tk) == ND >= 2 /\ ColDC.prune /\ EmptyCols(tk) = ValidPos(DimC)
ColSubsPruned(tk) == ND >= 2 /\ RowDC.prune /\ EmptyRows(tk) = ValidPos(DimR)

DropSubs(ord) == SelectSeq(ord, LAMBDA r : r > 0)

RowOrder(tk) ==
  IF ND = 0 THEN << >>
  ELSE LET o == AnchoredOrder(DimR, RowDC, RowHid(tk)) IN
       IF RowSubsPruned(tk) THEN DropSubs(o) ELSE o
ColOrder(tk) ==
  IF ND < 2 THEN << >>
  ELSE LET o == AnchoredOrder(DimC, ColDC, ColHid(tk)) IN
       IF ColSubsPruned(tk) THEN DropSubs(o) ELSE o

RE(tk) == IF ND >= 1 THEN ElsOf(DimR, RowDC, RowOrder(tk)) ELSE << >>
CE(tk) == IF ND >= 2 THEN ElsOf(DimC, ColDC, ColOrder(tk)) ELSE << >>
=============================================================================
