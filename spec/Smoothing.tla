------------------------------ MODULE Smoothing ------------------------------
(***************************************************************************)
(* C20: smoothing is a trailing moving average over the periods (base      *)
(* categories, payload order) of a categorical-date dimension.             *)
(*                                                                         *)
(* The smoother of a dimension configuration: [has, win]; has = FALSE: no  *)
(* smoother in the transforms; win = NA: no window given.  A transform     *)
(* that gives no window has asked for the default window 2.                *)
(***************************************************************************)
EXTENDS Sort

SmoothDC == IF ND >= 2 THEN ColDC ELSE RowDC     \* the dimension carrying the periods
SmoothDim == IF ND >= 2 THEN DimC ELSE DimR

EffWindow == IF ~SmoothDC.smoother.has \/ SmoothDC.smoother.win = NA THEN 2
             ELSE SmoothDC.smoother.win

\* smoothing applies iff the dimension is categorical-date, there is at least one
\* period, and 2 <= window <= number of periods; otherwise values are unchanged
CanSmooth(n) == IsDate(SmoothDim) /\ n > 0 /\ EffWindow >= 2 /\ EffWindow <= n

RECURSIVE SumFrom(_, _, _)
SumFrom(v, a, b) == IF a > b THEN Zero ELSE Add(v[a], SumFrom(v, a + 1, b))

SmoothSeq(v) ==
  LET n == Len(v)  w == EffWindow IN
  IF ~CanSmooth(n) THEN v
  ELSE [t \in 1..n |-> IF t >= w THEN Div(SumFrom(v, t - w + 1, t), R(w)) ELSE NaN]

\* the periods: base elements of the smoothing dimension in payload order
Periods == BaseEls(SmoothDim)
PeriodIdx(e) == CHOOSE t \in 1..Len(Periods) : Periods[t] = e

\* smooth f(row element, period element) along the periods; value for displayed (re, ce)
\* where ce is a base column; inserted columns are not periods: left open
SmoothedAt(f(_, _), re, ce) ==
  IF IsIns(ce) THEN AnyVal
  ELSE SmoothSeq([t \in 1..Len(Periods) |-> f(re, Periods[t])])[PeriodIdx(ce)]

SmoothedColProps(tk, RS, CS) ==
  Mat(Len(RS), Len(CS), LAMBDA i, j :
      SmoothedAt(LAMBDA r, c : ColProp(tk, r, c), RS[i], CS[j]))
SmoothedColIndex(tk, RS, CS) ==
  Mat(Len(RS), Len(CS), LAMBDA i, j :
      IF IsIns(RS[i]) \/ IsIns(CS[j]) THEN NaN
      ELSE SmoothedAt(LAMBDA r, c : ColIndex(tk, r, c), RS[i], CS[j]))
SmoothedMeans(tk, RS, CS) ==
  Mat(Len(RS), Len(CS), LAMBDA i, j :
      IF IsIns(RS[i]) \/ IsIns(CS[j]) THEN NaN
      ELSE SmoothedAt(LAMBDA r, c : YStat("mean", Co(tk, r, c)), RS[i], CS[j]))

\* smoothed columns scale mean = scale mean of the smoothed column proportions of the
\* base rows
SmoothedColsScaleMean(tk, CS) ==
  IF ~HasVals(DimR) THEN NoneV
  ELSE LET rows == BaseEls(DimR)
           sp(i, ce) == SmoothedAt(LAMBDA r, c : ColProp(tk, r, c), rows[i], ce)
           val(i) == ValOf(DimR, CHOOSE x \in rows[i].pos : TRUE)
           valued == {i \in 1..Len(rows) : val(i) # NA}
       IN  Num1(Vec(Len(CS), LAMBDA j :
             IF IsIns(CS[j]) THEN AnyVal
             ELSE Div(FoldSet(LAMBDA i, acc : Add(Mul(R(val(i)), sp(i, CS[j])), acc), Zero, valued),
                      FoldSet(LAMBDA i, acc : Add(sp(i, CS[j]), acc), Zero, valued))))

\* strand: means smoothed along the rows
SSmoothedMeans(tk, RS) ==
  Vec(Len(RS), LAMBDA i :
      IF IsIns(RS[i]) THEN NaN
      ELSE SmoothSeq([t \in 1..Len(Periods) |-> YStat("mean", Co(tk, Periods[t], NoEl))])
             [PeriodIdx(RS[i])])
=============================================================================
