------------------------------- MODULE Derived ------------------------------
(***************************************************************************)
(* Second-order measures, all written over signed elements so that body,   *)
(* inserted rows, inserted columns and intersections are one definition.   *)
(***************************************************************************)
EXTENDS Slice

Sqrt1(s)  == [k |-> "sqrt", nd |-> 1, v |-> s, scale |-> One]
Sqrt2(m)  == [k |-> "sqrt", nd |-> 2, v |-> m, scale |-> One]
\* observed x must satisfy x >= 0 and (x / scale)^2 = leaf
SqrtS1(s, sc) == [k |-> "sqrt", nd |-> 1, v |-> s, scale |-> sc]
SqrtS2(m, sc) == [k |-> "sqrt", nd |-> 2, v |-> m, scale |-> sc]

Z975 == <<1959964, 1000000>>

(***************************************************************************)
(* C11: variance of a proportion = weighted variance, among the            *)
(* respondents of the proportion's base, of the indicator that is +1 on    *)
(* the cell's addends, -1 on its subtrahends, 0 otherwise:                 *)
(*      Var = sum(w ind^2)/B - (sum(w ind)/B)^2                            *)
(***************************************************************************)
AbsInd(x) == IF x < 0 THEN -x ELSE x

RECURSIVE AbsIndProd(_, _, _, _)
AbsIndProd(p, co, md, d) ==
  IF d > ND THEN 1
  ELSE LET x == Ind(p, d, co, md[d]) IN
       IF x = 0 THEN 0 ELSE AbsInd(x) * AbsIndProd(p, co, md, d + 1)

\* weight of the respondents with a non-zero indicator (sum of w * ind^2)
WtAbs(co, md, st) ==
  SumResp(LAMBDA k : IF YOk(k.p, co) THEN AbsIndProd(k.p, co, md, 1) * StatOf(k, st) ELSE 0)

\* an id listed both as addend and as subtrahend: the statement does not say which
\* indicator its members get
Overlapping(e) == e.pos \cap e.neg # {}

BaseDir(dir, tk, re, ce, st) ==
  CASE dir = "row"   -> RowDiffNaN(re, R(RowBase(tk, re, ce, st)))
    [] dir = "col"   -> ColDiffNaN(ce, R(ColBase(tk, re, ce, st)))
    [] dir = "table" -> R(TableBase(tk, re, ce, st))

PropDir(dir, tk, re, ce) ==
  CASE dir = "row" -> RowProp(tk, re, ce) [] dir = "col" -> ColProp(tk, re, ce)
    [] dir = "table" -> TableProp(tk, re, ce)

VarDir(dir, tk, re, ce) ==
  LET p == PropDir(dir, tk, re, ce)
      B == BaseDir(dir, tk, re, ce, WS)
  IN  IF IsNaN(p) \/ ~IsFinite(B) \/ B[1] = 0 THEN NaN
      ELSE IF Overlapping(re) \/ Overlapping(ce) THEN AnyVal
      ELSE Sub(Div(R(WtAbs(Co(tk, re, ce), Md("sel", "sel"), WS)), B), Sq(p))

SE2Dir(dir, tk, re, ce) ==
  LET v == VarDir(dir, tk, re, ce) IN
  IF v = AnyVal THEN AnyVal ELSE Div(v, BaseDir(dir, tk, re, ce, WS))

VarM(dir, tk, RE, CE) == Mat(Len(RE), Len(CE), LAMBDA i, j : VarDir(dir, tk, RE[i], CE[j]))
SE2M(dir, tk, RE, CE) == Mat(Len(RE), Len(CE), LAMBDA i, j : SE2Dir(dir, tk, RE[i], CE[j]))

\* strand: table direction only
SVar(tk, re) ==
  LET p == SProp(tk, re)
      B == R(TableBase(tk, re, NoEl, WS))
  IN  IF IsNaN(p) \/ B[1] = 0 THEN NaN
      ELSE IF Overlapping(re) THEN AnyVal
      ELSE Sub(Div(R(WtAbs(Co(tk, re, NoEl), Md("sel", "sel"), WS)), B), Sq(p))
SSE2(tk, re) ==
  LET v == SVar(tk, re) IN
  IF v = AnyVal THEN AnyVal ELSE Div(v, R(TableBase(tk, re, NoEl, WS)))
SVarV(tk, RE) == Vec(Len(RE), LAMBDA i : SVar(tk, RE[i]))
SSE2V(tk, RE) == Vec(Len(RE), LAMBDA i : SSE2(tk, RE[i]))

(***************************************************************************)
(* C12: adjusted standardized residuals.  With c = count, R / C / T the    *)
(* cell's own row / column / table bases (all weighted):                   *)
(*    z = (c - RC/T) / sqrt(RC(T-R)(T-C)/T^3)                              *)
(* specified by sign and square:  Z2 = (cT - RC)^2 T / (RC(T-R)(T-C)).     *)
(* A table without two linearly independent rows and columns among its     *)
(* base cells reports NaN everywhere.  Where the variance term is zero the *)
(* statement's formula divides by zero: left open.                         *)
(***************************************************************************)
ZTerms(tk, re, ce) ==
  [ c |-> CountR(tk, re, ce, WS),
    r |-> BaseDir("row", tk, re, ce, WS),
    cc |-> BaseDir("col", tk, re, ce, WS),
    t |-> BaseDir("table", tk, re, ce, WS) ]

BaseCount(tk, i, j) == Count(tk, BaseEls(DimR)[i], BaseEls(DimC)[j], WS)
NBaseR == Len(BaseEls(DimR))
NBaseC == Len(BaseEls(DimC))
\* exact rank < 2: an extent is zero, or every 2 x 2 minor vanishes
Defective(tk) ==
  LET M == [i \in 1..NBaseR |-> [j \in 1..NBaseC |-> BaseCount(tk, i, j)]] IN
  \/ NBaseR = 0 \/ NBaseC = 0
  \/ \A i1, i2 \in 1..NBaseR : \A j1, j2 \in 1..NBaseC :
        M[i1][j1] * M[i2][j2] = M[i1][j2] * M[i2][j1]

\* value as <<sign, square>>
ZScoreD(def, tk, re, ce) ==
  LET z == ZTerms(tk, re, ce) IN
  IF def THEN <<0, NaN>>
  ELSE IF IsNaN(z.c) \/ IsNaN(z.r) \/ IsNaN(z.cc) \/ IsNaN(z.t) THEN <<0, NaN>>
  ELSE LET c == z.c[1]  r == z.r[1]  cc == z.cc[1]  t == z.t[1]
           num == c * t - r * cc
           den == r * cc * (t - r) * (t - cc)
       IN  IF t = 0 THEN <<0, NaN>>
           ELSE IF den = 0 THEN <<0, AnyVal>>
           ELSE <<Sign(num), Norm(<<num * num * t, den>>)>>

ZScore(tk, re, ce) == ZScoreD(Defective(tk), tk, re, ce)

ZScoreM(tk, RE, CE) ==
  LET def == Defective(tk) IN
  Mat(Len(RE), Len(CE), LAMBDA i, j : ZScoreD(def, tk, RE[i], CE[j]))

SSqrt2(m) == [k |-> "ssqrt", nd |-> 2, v |-> m]
\* p = two-sided normal tail of sqrt(leaf[2]); evaluated by the replayer
TailNormal2(m) == [k |-> "tail_normal", nd |-> 2, v |-> m]

\* Pearson chi-square over the base cells (for the 2 x 2 theorem)
ChiSq(tk) ==
  LET T == TableBase(tk, BaseEls(DimR)[1], BaseEls(DimC)[1], WS)
      cell(i, j) ==
        LET re == BaseEls(DimR)[i]  ce == BaseEls(DimC)[j]
            c == Count(tk, re, ce, WS)
            r == RowBase(tk, re, ce, WS)  cc == ColBase(tk, re, ce, WS)
        IN  Div(Sq(Sub(R(c), Div(R(r * cc), R(T)))), Div(R(r * cc), R(T)))
  IN  SumSeq(<<cell(1, 1), cell(1, 2), cell(2, 1), cell(2, 2)>>)

\* theorem checked by TLC on 2 x 2 categorical tables: every z squared is the
\* Pearson chi-square statistic
ThmZ2IsChiSq ==
  (NBaseR = 2 /\ NBaseC = 2 /\ ~RowsAreItems /\ ~ColsAreItems) =>
    \A tk \in {TableEls[t] : t \in 1..NParts} :
      \A i, j \in 1..2 :
        LET z == ZScore(tk, BaseEls(DimR)[i], BaseEls(DimC)[j]) IN
        (IsFinite(z[2]) /\ z[2] # AnyVal) => Eq(z[2], ChiSq(tk))
=============================================================================
