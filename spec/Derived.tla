------------------------------- MODULE Derived ------------------------------
(***************************************************************************)
(* Second-order measures, all written over signed elements so that body,   *)
(* inserted rows, inserted columns and intersections are one definition.   *)
(***************************************************************************)
EXTENDS Slice

Sqrt1(s)  == [k |-> "sqrt", nd |-> 1, v |-> s, scale |-> One]
Sqrt2(m)  == [k |-> "sqrt", nd |-> 2, v |-> m, scale |-> One]
\* observed x must satisfy x >= 0 and (x / scale)^2 = leaf
SqrtS1(s, sc) == [k |-> "sqrt", nd |-> 1, v |-> s, scale |-> sc]
SqrtS2(m, sc) == [k |-> "sqrt", nd |-> 2, v |-> m, scale |-> sc]

Z975 == <<1959964, 1000000>>

(***************************************************************************)
(* C11: variance of a proportion = weighted variance, among the            *)
(* respondents of the proportion's base, of the indicator that is +1 on    *)
(* the cell's addends, -1 on its subtrahends, 0 otherwise:                 *)
(*      Var = sum(w ind^2)/B - (sum(w ind)/B)^2                            *)
(***************************************************************************)
AbsInd(x) == IF x < 0 THEN -x ELSE x

RECURSIVE AbsIndProd(_, _, _, _)
AbsIndProd(p, co, md, d) ==
  IF d > ND THEN 1
  ELSE LET x == Ind(p, d, co, md[d]) IN
       IF x = 0 THEN 0 ELSE AbsInd(x) * AbsIndProd(p, co, md, d + 1)

\* weight of the respondents with a non-zero indicator (sum of w * ind^2)
WtAbs(co, md, st) ==
  SumResp(LAMBDA k : IF YOk(k.p, co) THEN AbsIndProd(k.p, co, md, 1) * StatOf(k, st) ELSE 0)

\* an id listed both as addend and as subtrahend: the statement does not say which
\* indicator its members get
Overlapping(e) == e.pos \cap e.neg # {}

BaseDir(dir, tk, re, ce, st) ==
  CASE dir = "row"   -> RowDiffNaN(re, RSt(RowBase(tk, re, ce, st), st))
    [] dir = "col"   -> ColDiffNaN(ce, RSt(ColBase(tk, re, ce, st), st))
    [] dir = "table" -> RSt(TableBase(tk, re, ce, st), st)

PropDir(dir, tk, re, ce) ==
  CASE dir = "row" -> RowProp(tk, re, ce) [] dir = "col" -> ColProp(tk, re, ce)
    [] dir = "table" -> TableProp(tk, re, ce)

VarDir(dir, tk, re, ce) ==
  LET p == PropDir(dir, tk, re, ce)
      B == BaseDir(dir, tk, re, ce, WS)
  IN  IF IsNaN(p) \/ ~IsFinite(B) \/ B[1] = 0 THEN NaN
      ELSE IF Overlapping(re) \/ Overlapping(ce) THEN AnyVal
      ELSE Sub(Div(RSt(WtAbs(Co(tk, re, ce), Md("sel", "sel"), WS), WS), B), Sq(p))

SE2Dir(dir, tk, re, ce) ==
  LET v == VarDir(dir, tk, re, ce) IN
  IF v = AnyVal THEN AnyVal ELSE Div(v, BaseDir(dir, tk, re, ce, WS))

VarM(dir, tk, RE, CE) == Mat(Len(RE), Len(CE), LAMBDA i, j : VarDir(dir, tk, RE[i], CE[j]))
SE2M(dir, tk, RE, CE) == Mat(Len(RE), Len(CE), LAMBDA i, j : SE2Dir(dir, tk, RE[i], CE[j]))

\* strand: table direction only
SVar(tk, re) ==
  LET p == SProp(tk, re)
      B == RSt(TableBase(tk, re, NoEl, WS), WS)
  IN  IF IsNaN(p) \/ B[1] = 0 THEN NaN
      ELSE IF Overlapping(re) THEN AnyVal
      ELSE Sub(Div(RSt(WtAbs(Co(tk, re, NoEl), Md("sel", "sel"), WS), WS), B), Sq(p))
SSE2(tk, re) ==
  LET v == SVar(tk, re) IN
  IF v = AnyVal THEN AnyVal ELSE Div(v, RSt(TableBase(tk, re, NoEl, WS), WS))
SVarV(tk, RE) == Vec(Len(RE), LAMBDA i : SVar(tk, RE[i]))
SSE2V(tk, RE) == Vec(Len(RE), LAMBDA i : SSE2(tk, RE[i]))

(***************************************************************************)
(* C12: adjusted standardized residuals.  With c = count, R / C / T the    *)
(* cell's own row / column / table bases (all weighted):                   *)
(*    z = (c - RC/T) / sqrt(RC(T-R)(T-C)/T^3)                              *)
(* specified by sign and square:  Z2 = (cT - RC)^2 T / (RC(T-R)(T-C)).     *)
(* A table without two linearly independent rows and columns among its     *)
(* base cells reports NaN everywhere.  Where the variance term is zero the *)
(* statement's formula divides by zero: left open.                         *)
(***************************************************************************)
ZTerms(tk, re, ce) ==
  [ c |-> CountR(tk, re, ce, WS),
    r |-> BaseDir("row", tk, re, ce, WS),
    cc |-> BaseDir("col", tk, re, ce, WS),
    t |-> BaseDir("table", tk, re, ce, WS) ]

BaseCount(tk, i, j) == Count(tk, BaseEls(DimR)[i], BaseEls(DimC)[j], WS)
NBaseR == Len(BaseEls(DimR))
NBaseC == Len(BaseEls(DimC))
\* exact rank < 2: an extent is zero, or every 2 x 2 minor vanishes
Defective(tk) ==
  LET M == [i \in 1..NBaseR |-> [j \in 1..NBaseC |-> BaseCount(tk, i, j)]] IN
  \/ NBaseR = 0 \/ NBaseC = 0
  \/ \A i1, i2 \in 1..NBaseR : \A j1, j2 \in 1..NBaseC :
        M[i1][j1] * M[i2][j2] = M[i1][j2] * M[i2][j1]

\* value as <<sign, square>>
ZScoreD(def, tk, re, ce) ==
  LET z == ZTerms(tk, re, ce) IN
  IF def THEN <<0, NaN>>
  ELSE IF IsNaN(z.c) \/ IsNaN(z.r) \/ IsNaN(z.cc) \/ IsNaN(z.t) THEN <<0, NaN>>
  ELSE \* integer sums of key weights; Z2 is homogeneous of degree 1 in the weights
       LET c == IntAt(z.c, WS)  r == IntAt(z.r, WS)  cc == IntAt(z.cc, WS)  t == IntAt(z.t, WS)
           num == c * t - r * cc
           den == r * cc * (t - r) * (t - cc)
       IN  IF t = 0 THEN <<0, NaN>>
           ELSE IF den = 0 THEN <<0, AnyVal>>
           ELSE <<Sign(num), Mul(Norm(<<num * num, den>>), RSt(t, WS))>>

ZScore(tk, re, ce) == ZScoreD(Defective(tk), tk, re, ce)

ZScoreM(tk, RE, CE) ==
  LET def == Defective(tk) IN
  Mat(Len(RE), Len(CE), LAMBDA i, j : ZScoreD(def, tk, RE[i], CE[j]))

SSqrt2(m) == [k |-> "ssqrt", nd |-> 2, v |-> m]

(***************************************************************************)
(* Huge tables (family "c12h", batches of ~100,000 respondents): the       *)
(* square of a z-score no longer fits TLC's 32-bit integers, so only       *)
(* WHETHER the z-score is defined and its SIGN -- sign(cT - RC) -- are     *)
(* specified, with products compared as three base-10^4 limbs.  This is    *)
(* the regime where a row base lies within 1e-5 of the table base without  *)
(* being equal to it.                                                      *)
(*   leaf: -1 / 1 sign of a defined z-score, 2 NaN, 3 left open            *)
(***************************************************************************)
ProdLimbs(a, b) ==   \* 0 <= a, b < 10^8
  LET a1 == a \div 10000  a0 == a % 10000  b1 == b \div 10000  b0 == b % 10000
      lo == a0 * b0   mid == a1 * b0 + a0 * b1 + (lo \div 10000)
  IN  <<a1 * b1 + (mid \div 10000), mid % 10000, lo % 10000>>
CmpProd(a, b, c, d) ==   \* sign(ab - cd)
  LET x == ProdLimbs(a, b)  y == ProdLimbs(c, d) IN
  IF x[1] # y[1] THEN Sign(x[1] - y[1])
  ELSE IF x[2] # y[2] THEN Sign(x[2] - y[2]) ELSE Sign(x[3] - y[3])
DefectiveH(tk) ==
  LET M == [i \in 1..NBaseR |-> [j \in 1..NBaseC |-> BaseCount(tk, i, j)]] IN
  \/ NBaseR = 0 \/ NBaseC = 0
  \/ \A i1, i2 \in 1..NBaseR : \A j1, j2 \in 1..NBaseC :
        CmpProd(M[i1][j1], M[i2][j2], M[i1][j2], M[i2][j1]) = 0
ZSignD(def, tk, re, ce) ==
  LET z == ZTerms(tk, re, ce) IN
  IF def THEN 2
  ELSE IF IsNaN(z.c) \/ IsNaN(z.r) \/ IsNaN(z.cc) \/ IsNaN(z.t) THEN 2
  ELSE LET c == IntAt(z.c, WS)  r == IntAt(z.r, WS)  cc == IntAt(z.cc, WS)  t == IntAt(z.t, WS) IN
       IF t = 0 THEN 2
       ELSE IF c < 0 \/ r <= 0 \/ cc <= 0 \/ t - r <= 0 \/ t - cc <= 0 THEN 3
       ELSE LET s == CmpProd(c, t, r, cc) IN IF s = 0 THEN 3 ELSE s
ZSignM(tk, RE, CE) ==
  LET def == DefectiveH(tk) IN
  Mat(Len(RE), Len(CE), LAMBDA i, j : ZSignD(def, tk, RE[i], CE[j]))
\* p = two-sided normal tail of sqrt(leaf[2]); evaluated by the replayer
TailNormal2(m) == [k |-> "tail_normal", nd |-> 2, v |-> m]

\* Pearson chi-square over the base cells (for the 2 x 2 theorem)
ChiSq(tk) ==
  LET T == TableBase(tk, BaseEls(DimR)[1], BaseEls(DimC)[1], WS)
      cell(i, j) ==
        LET re == BaseEls(DimR)[i]  ce == BaseEls(DimC)[j]
            c == Count(tk, re, ce, WS)
            r == RowBase(tk, re, ce, WS)  cc == ColBase(tk, re, ce, WS)
            e == Div(Mul(RSt(r, WS), RSt(cc, WS)), RSt(T, WS))
        IN  Div(Sq(Sub(RSt(c, WS), e)), e)
  IN  SumSeq(<<cell(1, 1), cell(1, 2), cell(2, 1), cell(2, 2)>>)

\* theorem checked by TLC on 2 x 2 categorical tables: every z squared is the
\* Pearson chi-square statistic
ThmZ2IsChiSq ==
  (NBaseR = 2 /\ NBaseC = 2 /\ ~RowsAreItems /\ ~ColsAreItems) =>
    \A tk \in {TableEls[t] : t \in 1..NParts} :
      \A i, j \in 1..2 :
        LET z == ZScore(tk, BaseEls(DimR)[i], BaseEls(DimC)[j]) IN
        (IsFinite(z[2]) /\ z[2] # AnyVal) => Eq(z[2], ChiSq(tk))

(***************************************************************************)
(* C14: scale statistics.  A vector (row or column element v of dimension  *)
(* dv) is a multiset of respondents, each carrying the numeric value of    *)
(* the category of the OPPOSING dimension do they fall in; respondents     *)
(* whose category has no numeric value are ignored.                        *)
(*   mean, population variance, median of that multiset (weighted counts   *)
(*   are integers here, so the median is that of the expanded multiset);   *)
(*   SE^2 = variance / weighted margin of the vector.                      *)
(***************************************************************************)
ValOf(d, p) == Dims[d].vals[p]
Valued(d)   == {p \in ValidPos(d) : ValOf(d, p) # NA}
HasVals(d)  == Valued(d) # {}
NoneV == [k |-> "none", nd |-> 0, v |-> 0]
OpenV == [k |-> "any", nd |-> 0, v |-> 0]     \* the statement leaves the output open

\* weighted count of vector element v (on dimension dv) in opposing category p
VecCount(tk, dv, v, p) ==
  IF dv = DimR THEN Count(tk, v, BaseEl(DimC, p), WS)
  ELSE Count(tk, BaseEl(DimR, p), v, WS)
OppDim(dv) == IF dv = DimR THEN DimC ELSE DimR

ScaleN(tk, dv, v)  == MapThenSumSet(LAMBDA p : VecCount(tk, dv, v, p), Valued(OppDim(dv)))
ScaleS1(tk, dv, v) ==
  MapThenSumSet(LAMBDA p : VecCount(tk, dv, v, p) * ValOf(OppDim(dv), p), Valued(OppDim(dv)))
ScaleS2(tk, dv, v) ==
  MapThenSumSet(LAMBDA p : VecCount(tk, dv, v, p) * ValOf(OppDim(dv), p) * ValOf(OppDim(dv), p),
                Valued(OppDim(dv)))

\* no property says what the scale statistics of a difference are
ScaleMean(tk, dv, v) ==
  IF IsDiff(v) THEN AnyVal ELSE Div(R(ScaleS1(tk, dv, v)), R(ScaleN(tk, dv, v)))
ScaleVar(tk, dv, v) ==
  IF IsDiff(v) THEN AnyVal
  ELSE LET n == ScaleN(tk, dv, v) IN
       IF n = 0 THEN NaN
       ELSE Sub(Div(R(ScaleS2(tk, dv, v)), R(n)), Sq(Div(R(ScaleS1(tk, dv, v)), R(n))))

\* value at 1-based rank r of the sorted expanded multiset given by cnt[p] on Valued(d)
RankValue(d, cnt, r) ==
  LET vals == {ValOf(d, p) : p \in Valued(d)}
      cumLE(x) == MapThenSumSet(LAMBDA p : IF ValOf(d, p) <= x THEN cnt[p] ELSE 0, Valued(d))
  IN  Min({x \in vals : cumLE(x) >= r})

\* cntK[p]: integer sum of key weights (scale WScale(WS)).  The statement defines the
\* median for integer counts only: with a fractional count anywhere it is left open.
MedianOf(d, cntK) ==
  LET D == WScale(WS) IN
  IF \E p \in Valued(d) : cntK[p] % D # 0 THEN AnyVal
  ELSE LET cnt == [p \in Valued(d) |-> cntK[p] \div D]
           n == MapThenSumSet(LAMBDA p : cnt[p], Valued(d)) IN
       IF n = 0 THEN NaN
       ELSE IF n % 2 = 1 THEN R(RankValue(d, cnt, (n + 1) \div 2))
       ELSE Div(R(RankValue(d, cnt, n \div 2) + RankValue(d, cnt, n \div 2 + 1)), R(2))

ScaleMedian(tk, dv, v) ==
  IF IsDiff(v) THEN AnyVal
  ELSE MedianOf(OppDim(dv), [p \in Valued(OppDim(dv)) |-> VecCount(tk, dv, v, p)])

\* weighted margin of the vector (defined when the opposing dimension is categorical)
VecMargin(tk, dv, v) ==
  IF dv = DimR THEN RowBase(tk, v, AnyEl(DimC), WS) ELSE ColBase(tk, AnyEl(DimR), v, WS)
ScaleSE2(tk, dv, v) ==
  LET var == ScaleVar(tk, dv, v) IN
  IF var = AnyVal THEN AnyVal ELSE Div(var, RSt(VecMargin(tk, dv, v), WS))

ScaleOut(tk, dv, E, f(_, _, _), sqrt) ==
  IF ~HasVals(OppDim(dv)) THEN NoneV
  ELSE LET vec == Vec(Len(E), LAMBDA i : f(tk, dv, E[i])) IN
       IF sqrt THEN Sqrt1(vec) ELSE Num1(vec)

\* the scalar "margins": the same statistics of the opposing margin as one vector
MarginCnt(tk, dv) ==   \* counts per category of dv's opposing... see ScaleMarginMean
  [p \in Valued(dv) |->
     IF dv = DimC THEN ColBase(tk, AnyEl(DimR), BaseEl(DimC, p), WS)
     ELSE RowBase(tk, BaseEl(DimR, p), AnyEl(DimC), WS)]
\* rows_scale_*_margin summarises the columns margin with the column values (dv = DimC)
ScaleMarginMean(tk, dv) ==
  IF ~HasVals(dv) THEN NoneV
  ELSE LET c == MarginCnt(tk, dv) IN
       Num0(Div(R(MapThenSumSet(LAMBDA p : c[p] * ValOf(dv, p), Valued(dv))),
                R(MapThenSumSet(LAMBDA p : c[p], Valued(dv)))))
ScaleMarginMedian(tk, dv) ==
  IF ~HasVals(dv) THEN NoneV
  ELSE LET c == MarginCnt(tk, dv)  m == MedianOf(dv, c) IN
       IF m = AnyVal THEN OpenV ELSE IF IsNaN(m) THEN NoneV ELSE Num0(m)

\* strand: the single variable's own values
SScaleCnt(tk) == [p \in Valued(DimR) |-> Count(tk, BaseEl(DimR, p), NoEl, WS)]
SScaleN(tk)  == MapThenSumSet(LAMBDA p : SScaleCnt(tk)[p], Valued(DimR))
SScaleS1(tk) == MapThenSumSet(LAMBDA p : SScaleCnt(tk)[p] * ValOf(DimR, p), Valued(DimR))
SScaleS2(tk) ==
  MapThenSumSet(LAMBDA p : SScaleCnt(tk)[p] * ValOf(DimR, p) * ValOf(DimR, p), Valued(DimR))
SScaleVarR(tk) == Sub(Div(R(SScaleS2(tk)), R(SScaleN(tk))), Sq(Div(R(SScaleS1(tk)), R(SScaleN(tk)))))
SNone(tk) == ~HasVals(DimR) \/ SScaleN(tk) = 0

(***************************************************************************)
(* C15: share of sum.  A cell's sum over the total of its row / column /   *)
(* table, every total taken over BASE rows and columns only (an            *)
(* unavailable sum counts as nothing in a total).  Differences: left open. *)
(***************************************************************************)
NanZero(x) == IF IsNaN(x) THEN Zero ELSE x
BaseRowEls == BaseEls(DimR)
BaseColEls == IF ND >= 2 /\ DimC # 0 THEN BaseEls(DimC) ELSE << NoEl >>

RECURSIVE SumSeqNZ(_)
SumSeqNZ(s) == IF s = << >> THEN Zero ELSE Add(NanZero(Head(s)), SumSeqNZ(Tail(s)))

RowSumTotal(tk, re) ==
  SumSeqNZ([j \in 1..Len(BaseColEls) |-> SumOver(tk, re, BaseColEls[j])])
ColSumTotal(tk, ce) ==
  SumSeqNZ([i \in 1..Len(BaseRowEls) |-> SumOver(tk, BaseRowEls[i], ce)])
TableSumTotal(tk) ==
  SumSeqNZ([i \in 1..Len(BaseRowEls) |-> RowSumTotal(tk, BaseRowEls[i])])

\* the total a subtotal's share refers to is that of its row/column over base cells
RowTotalOf(tk, re) == IF IsIns(re) /\ ~IsDiff(re)
                      THEN SumSeqNZ([j \in 1..Len(BaseColEls) |-> SumOver(tk, re, BaseColEls[j])])
                      ELSE RowSumTotal(tk, re)

ShareDir(dir, tk, re, ce) ==
  IF IsDiff(re) \/ IsDiff(ce) THEN AnyVal
  ELSE LET s == SumOver(tk, re, ce) IN
       CASE dir = "row"   -> Div(s, RowSumTotal(tk, re))
         [] dir = "col"   -> Div(s, ColSumTotal(tk, ce))
         [] dir = "table" -> Div(s, TableSumTotal(tk))
ShareM(dir, tk, RE, CE) ==
  Mat(Len(RE), Len(CE), LAMBDA i, j : ShareDir(dir, tk, RE[i], CE[j]))
\* A strand reports the SIGNED sum for a difference row (addends minus subtrahends), so
\* "its sum divided by the total" is defined there: the share of the signed sum.
SSignedSum(tk, re) ==
  LET part(S) == FoldSet(LAMBDA p, acc : Add(SumAt(Co(tk, BaseEl(DimR, p), NoEl)), acc), Zero, S)
  IN  Sub(part(re.pos), part(re.neg))
SShareV(tk, RE) ==
  Vec(Len(RE), LAMBDA i : IF IsDiff(RE[i]) THEN Div(SSignedSum(tk, RE[i]), TableSumTotal(tk))
                          ELSE Div(SumOver(tk, RE[i], NoEl), TableSumTotal(tk)))

(***************************************************************************)
(* C16: column index = 100 * column proportion / unconditional row share,  *)
(* the share of the row element among all respondents eligible for it,     *)
(* whatever their column answer (valid or missing).  NaN for subtotals.    *)
(***************************************************************************)
Uncond(tk, re, ce) ==
  Div(RSt(Wt(Co(tk, re, ce), Md("sel", "any"), WS), WS), RSt(Wt(Co(tk, re, ce), Md("own", "any"), WS), WS))
ColIndex(tk, re, ce) ==
  IF IsIns(re) \/ IsIns(ce) THEN NaN
  ELSE Mul(R(100), Div(PlainColProp(tk, re, ce), Uncond(tk, re, ce)))
ColIndexM(tk, RE, CE) == Mat(Len(RE), Len(CE), LAMBDA i, j : ColIndex(tk, RE[i], CE[j]))

(***************************************************************************)
(* C17: population estimates.                                              *)
(* Filter = [style, sel, oth, catdate, fn, un]:                            *)
(*   style "new": weighted complete-case statistics present: fraction =    *)
(*         sel/(sel+oth), 1 when the filter is a categorical date;         *)
(*   style "old": filtered / unfiltered weighted N (fn / un; NA = absent); *)
(*   style "none": nothing specified.                                      *)
(***************************************************************************)
Fraction ==
  CASE Filter.style = "new" ->
         IF Filter.catdate THEN One ELSE
         IF Filter.sel + Filter.oth = 0 THEN NaN ELSE Norm(<<Filter.sel, Filter.sel + Filter.oth>>)
    [] Filter.style = "old" ->
         IF Filter.fn = NA \/ Filter.un = NA THEN One
         ELSE IF Filter.un = 0 THEN NaN ELSE Norm(<<Filter.fn, Filter.un>>)
    [] OTHER -> One

Pop == IF Population = NA THEN 0 ELSE Population
PopDirection == IF IsDate(DimR) THEN "row" ELSE IF ND >= 2 /\ DimC # 0 /\ IsDate(DimC) THEN "col" ELSE "table"

PopProp(tk, re, ce) ==
  IF IsDiff(re) \/ IsDiff(ce) THEN NaN ELSE PropDir(PopDirection, tk, re, ce)
PopCount(tk, re, ce) == Mul(Mul(PopProp(tk, re, ce), R(Pop)), Fraction)
PopCountM(tk, RE, CE) == Mat(Len(RE), Len(CE), LAMBDA i, j : PopCount(tk, RE[i], CE[j]))
PopSE2M(tk, RE, CE) ==
  Mat(Len(RE), Len(CE), LAMBDA i, j :
      IF IsDiff(RE[i]) \/ IsDiff(CE[j]) THEN AnyVal ELSE SE2Dir(PopDirection, tk, RE[i], CE[j]))
PopScale == Mul(Mul(Z975, R(Pop)), Fraction)

SPopProp(tk, re) == IF IsDiff(re) THEN NaN ELSE IF IsDate(DimR) THEN One ELSE SProp(tk, re)
SPopCountV(tk, RE) == Vec(Len(RE), LAMBDA i : Mul(Mul(SPopProp(tk, RE[i]), R(Pop)), Fraction))
SPopSE2V(tk, RE) ==
  Vec(Len(RE), LAMBDA i : IF IsDiff(RE[i]) THEN AnyVal
                          ELSE IF IsDate(DimR) THEN Zero ELSE SSE2(tk, RE[i]))
=============================================================================
