------------------------------ MODULE Pairwise ------------------------------
(***************************************************************************)
(* C13: pairwise column tests.  Comparing column b with the selected       *)
(* column a in a row:                                                      *)
(*     t = (p_b - p_a) / sqrt(p_a(1-p_a)/n_a + p_b(1-p_b)/n_b)             *)
(* n = unweighted column base, or the effective base (sum w)^2 / sum w^2   *)
(* when the response carries squared weights; df = n_a + n_b - 2.          *)
(* For mean responses: Welch's test on the cell means m, the standard      *)
(* deviations s the response carries and the unweighted (valid) counts N.  *)
(*                                                                         *)
(* Statistics are emitted as FORMAL QUOTIENTS <<sign, num, den>> of exact  *)
(* rationals (the formula is here; the last division, the square root and  *)
(* the Student-t tail are evaluated by the replayer).                      *)
(***************************************************************************)
EXTENDS Smoothing

CONSTANT SquaredWeights      \* the response carries a weighted_squared_count measure

\* the base a column proportion is tested with
PwBase(tk, re, ce) ==
  IF SquaredWeights
  THEN ColDiffNaN(ce, Div(Sq(RSt(ColBase(tk, re, ce, WS), WS)), RSt(ColBase(tk, re, ce, "w2"), "w2")))
  ELSE ColDiffNaN(ce, RSt(ColBase(tk, re, ce, "n"), "n"))

PwVar(tk, re, ce) ==
  LET p == ColProp(tk, re, ce) IN Div(Mul(p, Sub(One, p)), PwBase(tk, re, ce))

AbsR(x) == IF IsFinite(x) /\ x[1] < 0 THEN Neg(x) ELSE x

\* t of column cb against selected column ca, as <<sign, num, den>>: t^2 = num / den
PwT(tk, re, ca, cb) ==
  LET d == Sub(ColProp(tk, re, cb), ColProp(tk, re, ca))
      v == AbsR(Add(PwVar(tk, re, ca), PwVar(tk, re, cb)))
  IN  <<SignR(d), Sq(d), v>>
PwDF(tk, re, ca, cb) == Sub(Add(PwBase(tk, re, ca), PwBase(tk, re, cb)), R(2))

\* --- means (Welch) ---------------------------------------------------------------
\* the standard deviation the response carries for a cell (Payload!CellStd), squared
CellS2(tk, re, ce) == Sq(YStat("stddev", Co(tk, re, ce)))
CellNv(tk, re, ce) == RSt(Count(tk, re, ce, "n"), "n")
MeanOf(tk, re, ce) == YStat("mean", Co(tk, re, ce))
WelchA(tk, re, ce) == Div(CellS2(tk, re, ce), CellNv(tk, re, ce))

PwMeansT(tk, re, ca, cb) ==
  IF IsIns(re) \/ IsIns(ca) \/ IsIns(cb) THEN <<0, NaN, One>>
  ELSE LET d == Sub(MeanOf(tk, re, cb), MeanOf(tk, re, ca)) IN
       <<SignR(d), Sq(d), Add(WelchA(tk, re, ca), WelchA(tk, re, cb))>>
\* Welch-Satterthwaite degrees of freedom as a formal quotient <<num, den>>
PwMeansDF(tk, re, ca, cb) ==
  IF IsIns(re) \/ IsIns(ca) \/ IsIns(cb) THEN <<NaN, One>>
  ELSE LET A == WelchA(tk, re, cb)  B == WelchA(tk, re, ca) IN
       << Sq(Add(A, B)),
          Add(Div(Sq(A), Sub(CellNv(tk, re, cb), One)), Div(Sq(B), Sub(CellNv(tk, re, ca), One))) >>

\* --- overlapping MR columns (response with overlap measures) ------------------------
\* Two MR items are answered by the same respondents, so the two column proportions are
\* not independent.  With (pooled over the respondents valid on the row dimension /
\* on the row item)  S_a, S_b, S_ab = weight selecting a, b, both;  N_a, N_b, N_ab =
\* weight non-missing on a, b, both;  p_x = S_x / N_x;  df = N_a + N_b - N_ab:
\*     t = (colprop_b - colprop_a) / sqrt((p_a(1-p_a) + p_b(1-p_b) + 2 p_a p_b - 2 p_ab) / df)
\* and the p-value is the Student-t tail with df - 2 degrees of freedom.
\* The variance is a signed sum of four terms that can cancel EXACTLY (e.g. b selected
\* by precisely the respondents who select a): in floating point the sum is then 0 or a
\* rounding residue of either sign, so the quotient carries the marker "cancelling" and
\* what is reported at an exactly-zero variance is left open (NaN, 0, +-inf or a huge
\* value are all roundings of the same formula).
OvWt(tk, re, a, b, valid) ==
  SumResp(LAMBDA k :
    LET q == k.p[VarOf(DimC)] IN
    IF (IF valid THEN q[a] # MIS /\ q[b] # MIS ELSE q[a] = SEL /\ q[b] = SEL)
    THEN IndProd(k.p, Co(tk, re, AnyEl(DimC)), Md("own", "any"), 1) * StatOf(k, WS)
    ELSE 0)
OvP(tk, re, a, b) == Div(R(OvWt(tk, re, a, b, FALSE)), R(OvWt(tk, re, a, b, TRUE)))
OvDF(tk, re, a, b) ==
  RSt(OvWt(tk, re, a, a, TRUE) + OvWt(tk, re, b, b, TRUE) - OvWt(tk, re, a, b, TRUE), WS)

PwOvT(tk, re, ca, cb) ==
  LET a == ca.item  b == cb.item IN
  IF a = b THEN <<0, Zero, One>>
  ELSE LET pa == OvP(tk, re, a, a)  pb == OvP(tk, re, b, b)  pab == OvP(tk, re, a, b)
           V == Sub(Add(Add(Mul(pa, Sub(One, pa)), Mul(pb, Sub(One, pb))), Mul(R(2), Mul(pa, pb))),
                    Mul(R(2), pab))
           d == Sub(ColProp(tk, re, cb), ColProp(tk, re, ca))
       IN  <<SignR(d), Sq(d), Div(V, OvDF(tk, re, a, b)), "cancelling">>
PwOvDF(tk, re, ca, cb) == Sub(OvDF(tk, re, ca.item, cb.item), R(2))

PwOvTMat(tk, RS, CS, sel) ==
  [k |-> "fq_ssqrt", nd |-> 2,
   v |-> Mat(Len(RS), Len(CS), LAMBDA i, j : PwOvT(tk, RS[i], CS[sel], CS[j]))]
PwOvPMat(tk, RS, CS, sel) ==
  [k |-> "tail_t", nd |-> 2,
   v |-> Mat(Len(RS), Len(CS), LAMBDA i, j :
             <<PwOvT(tk, RS[i], CS[sel], CS[j]), <<PwOvDF(tk, RS[i], CS[sel], CS[j]), One>>>>)]

\* --- outputs -----------------------------------------------------------------------
\* for the selected display column sel (1-based position in CS): one matrix
PwTMat(tk, RS, CS, sel) ==
  [k |-> "fq_ssqrt", nd |-> 2,
   v |-> Mat(Len(RS), Len(CS), LAMBDA i, j : PwT(tk, RS[i], CS[sel], CS[j]))]
\* the older accessor (pairwise_significance_tests[i].t_stats) takes the square root
\* without the absolute value and collapses the squared-weight base to one vector: what
\* it reports for a cell involving a difference, or across array-type rows, is left open
PwTMatLegacy(tk, RS, CS, sel) ==
  [k |-> "fq_ssqrt", nd |-> 2,
   v |-> Mat(Len(RS), Len(CS), LAMBDA i, j :
             IF IsDiff(RS[i]) \/ IsDiff(CS[sel]) \/ IsDiff(CS[j]) \/ RowsAreItems
             THEN <<0, AnyVal, One>>
             ELSE PwT(tk, RS[i], CS[sel], CS[j]))]
PwPMat(tk, RS, CS, sel) ==
  [k |-> "tail_t", nd |-> 2,
   v |-> Mat(Len(RS), Len(CS), LAMBDA i, j :
             <<PwT(tk, RS[i], CS[sel], CS[j]), <<PwDF(tk, RS[i], CS[sel], CS[j]), One>>>>)]
PwMeansTMat(tk, RS, CS, sel) ==
  [k |-> "fq_ssqrt", nd |-> 2,
   v |-> Mat(Len(RS), Len(CS), LAMBDA i, j : PwMeansT(tk, RS[i], CS[sel], CS[j]))]
PwMeansPMat(tk, RS, CS, sel) ==
  [k |-> "tail_t", nd |-> 2,
   v |-> Mat(Len(RS), Len(CS), LAMBDA i, j :
             <<PwMeansT(tk, RS[i], CS[sel], CS[j]), PwMeansDF(tk, RS[i], CS[sel], CS[j])>>)]

\* index sets: cell (i, j) lists the display positions k # j of the columns whose test
\* against column j is significant.  Emitted: for every k # j the statistic of column k
\* against selected column j; the replayer applies  p < alpha  and, in only-larger mode,
\* "column k's proportion is smaller than the cell's own" (sign < 0).
PwIdxCandidates(tk, RS, CS, T(_, _, _, _), DF(_, _, _, _), fq) ==
  [k |-> "pwidx", nd |-> 2,
   v |-> Mat(Len(RS), Len(CS), LAMBDA i, j :
             [c \in 1..Len(CS) |->
                [pos |-> c - 1, self |-> c = j,
                 t |-> T(tk, RS[i], CS[j], CS[c]),
                 df |-> IF fq THEN DF(tk, RS[i], CS[j], CS[c])
                        ELSE <<DF(tk, RS[i], CS[j], CS[c]), One>>]])]

PwIdx(tk, RS, CS)      == PwIdxCandidates(tk, RS, CS, PwT, PwDF, FALSE)
PwOvIdx(tk, RS, CS)    == PwIdxCandidates(tk, RS, CS, PwOvT, PwOvDF, FALSE)
PwMeansIdx(tk, RS, CS) == PwIdxCandidates(tk, RS, CS, PwMeansT, PwMeansDF, TRUE)

\* theorems checked by TLC on the spec: antisymmetry of t (the square is symmetric, the
\* sign flips) and t = 0 of a column against itself
ThmPwAntisym ==
  ND >= 2 =>
    \A t \in 1..NParts :
      LET tk == TableEls[t]  RS == RE(tk)  CS == CE(tk) IN
      \A i \in 1..Len(RS) : \A a, b \in 1..Len(CS) :
        LET x == PwT(tk, RS[i], CS[a], CS[b])  y == PwT(tk, RS[i], CS[b], CS[a]) IN
        /\ x[2] = y[2] /\ x[3] = y[3] /\ x[1] = -y[1]
        /\ (a = b /\ ~IsNaN(x[2]) => x[2] = Zero /\ x[1] = 0)
=============================================================================
