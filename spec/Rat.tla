-------------------------------- MODULE Rat --------------------------------
(***************************************************************************)
(* Exact rational arithmetic for TLC.  A rational is a pair <<n, d>> with  *)
(* d >= 0.  d = 0 encodes the IEEE specials the library can return:        *)
(*   <<0,0>> = NaN,  <<1,0>> = +infinity,  <<-1,0>> = -infinity.           *)
(* All operators normalise (gcd, positive denominator) so that TLC's       *)
(* 32-bit integers are not exceeded for the bounded scenarios.             *)
(***************************************************************************)
EXTENDS Integers, Sequences, FiniteSets

NaN    == <<0, 0>>
PosInf == <<1, 0>>
NegInf == <<-1, 0>>

\* "the property leaves this value open": emitted as an expectation only, never
\* used in arithmetic; the replayer accepts any observed value
AnyVal == <<0, -1>>

Abs(x)  == IF x < 0 THEN -x ELSE x
Sign(x) == IF x < 0 THEN -1 ELSE IF x > 0 THEN 1 ELSE 0

RECURSIVE GCD(_, _)
GCD(a, b) == IF b = 0 THEN a ELSE GCD(b, a % b)

IsNaN(r)    == r[2] = 0 /\ r[1] = 0
IsInf(r)    == r[2] = 0 /\ r[1] # 0
IsFinite(r) == r[2] # 0

Norm(r) ==
  IF r[2] = 0 THEN <<Sign(r[1]), 0>>
  ELSE LET s == IF r[2] < 0 THEN -1 ELSE 1
           g == GCD(Abs(r[1]), Abs(r[2]))
       IN  <<(s * r[1]) \div g, (s * r[2]) \div g>>

R(n) == <<n, 1>>
Zero == <<0, 1>>
One  == <<1, 1>>

Neg(a) == <<-a[1], a[2]>>

\* IEEE-like: NaN absorbs; inf + (-inf) = NaN.  Finite operands are added over the least
\* common denominator so that intermediates stay small (TLC integers are 32-bit).
Add(a, b) ==
  IF IsNaN(a) \/ IsNaN(b) THEN NaN
  ELSE IF IsInf(a) THEN (IF IsInf(b) /\ b[1] # a[1] THEN NaN ELSE a)
  ELSE IF IsInf(b) THEN b
  ELSE LET g == GCD(a[2], b[2])
           l == (a[2] \div g) * b[2]
       IN  Norm(<<a[1] * (l \div a[2]) + b[1] * (l \div b[2]), l>>)

Sub(a, b) == Add(a, Neg(b))

\* IEEE-like: 0 * inf = NaN.  Cross-cancels before multiplying.
Mul(a, b) ==
  IF IsNaN(a) \/ IsNaN(b) THEN NaN
  ELSE IF IsInf(a) \/ IsInf(b)
       THEN (IF a[1] = 0 \/ b[1] = 0 THEN NaN ELSE <<Sign(a[1]) * Sign(b[1]), 0>>)
  ELSE IF a[1] = 0 \/ b[1] = 0 THEN Zero
  ELSE LET g1 == GCD(Abs(a[1]), b[2])
           g2 == GCD(Abs(b[1]), a[2])
       IN  Norm(<<(a[1] \div g1) * (b[1] \div g2), (a[2] \div g2) * (b[2] \div g1)>>)

\* IEEE-like: x/0 = +-inf for x # 0, 0/0 = NaN, x/inf = 0, inf/inf = NaN
Div(a, b) ==
  IF IsNaN(a) \/ IsNaN(b) THEN NaN
  ELSE IF IsInf(b) THEN (IF IsInf(a) THEN NaN ELSE Zero)
  ELSE IF IsInf(a) THEN (IF b[1] < 0 THEN Neg(a) ELSE a)
  ELSE IF b[1] = 0 THEN <<Sign(a[1]), 0>>
  ELSE Mul(a, IF b[1] < 0 THEN <<-b[2], -b[1]>> ELSE <<b[2], b[1]>>)

\* comparisons are only meaningful on non-NaN arguments
Less(a, b) ==
  IF IsInf(a) /\ IsInf(b) THEN a[1] < b[1]
  ELSE IF IsInf(a) THEN a[1] < 0
  ELSE IF IsInf(b) THEN b[1] > 0
  ELSE a[1] * b[2] < b[1] * a[2]
Leq(a, b) == ~Less(b, a)
Eq(a, b)  == Norm(a) = Norm(b)

SignR(a) == Sign(a[1])
Sq(a)    == Mul(a, a)

RECURSIVE SumSeq(_)
SumSeq(s) == IF s = <<>> THEN Zero ELSE Add(Head(s), SumSeq(Tail(s)))

\* integer sum of an integer-valued sequence
RECURSIVE ISum(_)
ISum(s) == IF s = <<>> THEN 0 ELSE Head(s) + ISum(Tail(s))

Min2(a, b) == IF a < b THEN a ELSE b
Max2(a, b) == IF a > b THEN a ELSE b
=============================================================================
