-------------------------------- MODULE Emit --------------------------------
(***************************************************************************)
(* Emission of one JSON line per distinct state: the wire tensors the      *)
(* server would send (Flat, FlatY) and the meaning of the outputs of every *)
(* partition that the property family under check is about.  The replayer  *)
(* wraps the tensors in the response envelope, feeds the real library, and *)
(* compares each output.                                                   *)
(***************************************************************************)
EXTENDS Slice, Pairwise, Json

CONSTANTS
  Scn,       \* scenario name (string), echoed in every line
  Family,    \* which outputs to emit: "c01" | "c02" | "c03"
  MinBase    \* mask threshold used for min_base_size_mask

\* display order as references (n > 0: payload position, n < 0: subtotal); the
\* replayer maps them to the labels the scenario gave those elements
Positions(ord) == Exact(ord)

C01_2D(tk) ==
  [ counts            |-> Num2(CountM(tk, RE(tk), CE(tk), WS)),
    unweighted_counts |-> Num2(CountM(tk, RE(tk), CE(tk), "n")),
    row_pos           |-> Positions(RowOrder(tk)),
    column_pos        |-> Positions(ColOrder(tk)) ]
C01_2D_Y(tk) ==
  [ means   |-> Num2(YStatM("mean", tk, RE(tk), CE(tk))),
    sums    |-> Num2(YStatM("sum", tk, RE(tk), CE(tk))),
    stddev  |-> Num2(YStatM("stddev", tk, RE(tk), CE(tk))),
    medians |-> Num2(YStatM("median", tk, RE(tk), CE(tk))) ]
C01_1D(tk) ==
  [ counts            |-> Num1(SCountV(tk, RE(tk), WS)),
    unweighted_counts |-> Num1(SCountV(tk, RE(tk), "n")),
    row_pos           |-> Positions(RowOrder(tk)) ]
C01_1D_Y(tk) ==
  [ means   |-> Num1(SYStatV("mean", tk, RE(tk))),
    sums    |-> Num1(SYStatV("sum", tk, RE(tk))),
    stddev  |-> Num1(SYStatV("stddev", tk, RE(tk))),
    medians |-> Num1(SYStatV("median", tk, RE(tk))) ]

C02_2D(tk) ==
  [ row_weighted_bases      |-> Num2(RowBaseM(tk, RE(tk), CE(tk), WS)),
    row_unweighted_bases    |-> Num2(RowBaseM(tk, RE(tk), CE(tk), "n")),
    column_weighted_bases   |-> Num2(ColBaseM(tk, RE(tk), CE(tk), WS)),
    column_unweighted_bases |-> Num2(ColBaseM(tk, RE(tk), CE(tk), "n")),
    table_weighted_bases    |-> Num2(TableBaseM(tk, RE(tk), CE(tk), WS)),
    table_unweighted_bases  |-> Num2(TableBaseM(tk, RE(tk), CE(tk), "n")),
    rows_margin             |-> RowsMargin(tk, RE(tk), CE(tk), WS),
    rows_base               |-> RowsMargin(tk, RE(tk), CE(tk), "n"),
    columns_margin          |-> ColsMargin(tk, RE(tk), CE(tk), WS),
    columns_base            |-> ColsMargin(tk, RE(tk), CE(tk), "n"),
    table_margin            |-> TableBaseOut(tk, RE(tk), CE(tk), WS),
    table_base              |-> TableBaseOut(tk, RE(tk), CE(tk), "n"),
    table_base_range        |-> TableBaseRange(tk, "n"),
    table_margin_range      |-> TableBaseRange(tk, WS),
    min_base_size_mask__table_mask  |-> TableMask(tk, RE(tk), CE(tk), MinBase),
    min_base_size_mask__row_mask    |-> RowMask(tk, RE(tk), CE(tk), MinBase),
    min_base_size_mask__column_mask |-> ColMask(tk, RE(tk), CE(tk), MinBase) ]
C02_1D(tk) ==
  [ weighted_bases     |-> Num1(SBaseV(tk, RE(tk), WS)),
    unweighted_bases   |-> Num1(SBaseV(tk, RE(tk), "n")),
    table_base_range   |-> SBaseRange(tk, "n"),
    table_margin_range |-> SBaseRange(tk, WS),
    min_base_size_mask |-> SMask(tk, RE(tk), MinBase) ]

C03_2D(tk) ==
  [ row_proportions         |-> Num2(RowPropM(tk, RE(tk), CE(tk))),
    column_proportions      |-> Num2(ColPropM(tk, RE(tk), CE(tk))),
    table_proportions       |-> Num2(TablePropM(tk, RE(tk), CE(tk))),
    row_percentages         |-> Num2(Times100(RowPropM(tk, RE(tk), CE(tk)))),
    column_percentages      |-> Num2(Times100(ColPropM(tk, RE(tk), CE(tk)))),
    table_percentages       |-> Num2(Times100(TablePropM(tk, RE(tk), CE(tk)))),
    rows_margin_proportion    |-> RowsMarginProp(tk, RE(tk), CE(tk)),
    columns_margin_proportion |-> ColsMarginProp(tk, RE(tk), CE(tk)) ]
C03_1D(tk) ==
  [ table_proportions  |-> Num1(SPropV(tk, RE(tk))),
    table_percentages  |-> Num1([i \in 1..Len(RE(tk)) |-> Mul(R(100), SPropV(tk, RE(tk))[i])]) ]

\* display positions (0-based) of inserted subtotals and of differences
IdxWhere(E, P(_)) == Exact(SelectSeq([i \in 1..Len(E) |-> i - 1], LAMBDA i : P(E[i + 1])))

C04_2D(tk) ==
  C01_2D(tk) @@ C03_2D(tk) @@
  [ row_weighted_bases      |-> Num2(RowBaseM(tk, RE(tk), CE(tk), WS)),
    row_unweighted_bases    |-> Num2(RowBaseM(tk, RE(tk), CE(tk), "n")),
    column_weighted_bases   |-> Num2(ColBaseM(tk, RE(tk), CE(tk), WS)),
    column_unweighted_bases |-> Num2(ColBaseM(tk, RE(tk), CE(tk), "n")),
    table_weighted_bases    |-> Num2(TableBaseM(tk, RE(tk), CE(tk), WS)),
    table_unweighted_bases  |-> Num2(TableBaseM(tk, RE(tk), CE(tk), "n")),
    inserted_row_idxs       |-> IdxWhere(RE(tk), IsIns),
    inserted_column_idxs    |-> IdxWhere(CE(tk), IsIns),
    diff_row_idxs           |-> IdxWhere(RE(tk), IsDiff),
    diff_column_idxs        |-> IdxWhere(CE(tk), IsDiff) ]
C04_1D(tk) ==
  C01_1D(tk) @@ C03_1D(tk) @@
  [ weighted_bases     |-> Num1(SBaseV(tk, RE(tk), WS)),
    unweighted_bases   |-> Num1(SBaseV(tk, RE(tk), "n")),
    inserted_row_idxs  |-> IdxWhere(RE(tk), IsIns),
    diff_row_idxs      |-> IdxWhere(RE(tk), IsDiff) ]

C11_2D(tk) ==
  [ row_proportion_variances    |-> Num2(VarM("row", tk, RE(tk), CE(tk))),
    column_proportion_variances |-> Num2(VarM("col", tk, RE(tk), CE(tk))),
    table_proportion_variances  |-> Num2(VarM("table", tk, RE(tk), CE(tk))),
    row_std_dev     |-> Sqrt2(VarM("row", tk, RE(tk), CE(tk))),
    column_std_dev  |-> Sqrt2(VarM("col", tk, RE(tk), CE(tk))),
    table_std_dev   |-> Sqrt2(VarM("table", tk, RE(tk), CE(tk))),
    row_std_err     |-> Sqrt2(SE2M("row", tk, RE(tk), CE(tk))),
    column_std_err  |-> Sqrt2(SE2M("col", tk, RE(tk), CE(tk))),
    table_std_err   |-> Sqrt2(SE2M("table", tk, RE(tk), CE(tk))),
    row_proportions_moe    |-> SqrtS2(SE2M("row", tk, RE(tk), CE(tk)), Z975),
    column_proportions_moe |-> SqrtS2(SE2M("col", tk, RE(tk), CE(tk)), Z975),
    table_proportions_moe  |-> SqrtS2(SE2M("table", tk, RE(tk), CE(tk)), Z975) ]
C12_2D(tk) ==
  LET zm == ZScoreM(tk, RE(tk), CE(tk)) IN
  [ zscores |-> SSqrt2(zm),
    pvals   |-> TailNormal2(zm) ]

C12H_2D(tk) ==
  LET zm == ZSignM(tk, RE(tk), CE(tk)) IN
  [ zscores |-> [k |-> "zsign", nd |-> 2, v |-> zm],
    pvals   |-> [k |-> "zsign_p", nd |-> 2, v |-> zm] ]

C14_2D(tk) ==
  [ rows_scale_mean           |-> ScaleOut(tk, DimR, RE(tk), ScaleMean, FALSE),
    rows_scale_median         |-> ScaleOut(tk, DimR, RE(tk), ScaleMedian, FALSE),
    rows_scale_mean_stddev    |-> ScaleOut(tk, DimR, RE(tk), ScaleVar, TRUE),
    rows_scale_mean_stderr    |-> ScaleOut(tk, DimR, RE(tk), ScaleSE2, TRUE),
    columns_scale_mean        |-> ScaleOut(tk, DimC, CE(tk), ScaleMean, FALSE),
    columns_scale_median      |-> ScaleOut(tk, DimC, CE(tk), ScaleMedian, FALSE),
    columns_scale_mean_stddev |-> ScaleOut(tk, DimC, CE(tk), ScaleVar, TRUE),
    columns_scale_mean_stderr |-> ScaleOut(tk, DimC, CE(tk), ScaleSE2, TRUE),
    rows_scale_mean_margin      |-> ScaleMarginMean(tk, DimC),
    columns_scale_mean_margin   |-> ScaleMarginMean(tk, DimR),
    rows_scale_median_margin    |-> ScaleMarginMedian(tk, DimC),
    columns_scale_median_margin |-> ScaleMarginMedian(tk, DimR),
    \* read for its side effects only (it shares cached arrays with the scale means)
    columns_scale_mean_pairwise_indices |-> [k |-> "touch", nd |-> 0, v |-> 0] ]
C14_1D(tk) ==
  [ scale_mean    |-> IF SNone(tk) THEN NoneV ELSE Num0(Div(R(SScaleS1(tk)), R(SScaleN(tk)))),
    scale_median  |-> IF SNone(tk) THEN NoneV
                      ELSE IF MedianOf(DimR, SScaleCnt(tk)) = AnyVal THEN OpenV
                      ELSE Num0(MedianOf(DimR, SScaleCnt(tk))),
    scale_std_dev |-> IF SNone(tk) THEN NoneV
                      ELSE [k |-> "sqrt", nd |-> 0, v |-> SScaleVarR(tk), scale |-> One],
    scale_std_err |-> IF SNone(tk) THEN NoneV
                      ELSE [k |-> "sqrt", nd |-> 0, v |-> Div(SScaleVarR(tk), RSt(SScaleN(tk), WS)),
                            scale |-> One] ]

\* "c14h": the same statistics on HUGE tables (Interview batches of ~100,000 identical
\* respondents).  Only the outputs whose spec value needs no product of two sums are
\* emitted (means and medians; TLC's integers are 32-bit), which is exactly where the
\* library decides "is the cumulative share exactly 50 %?" on floating-point shares that
\* lie within 1e-5 of one half without being equal to it.
C14H_2D(tk) ==
  [ rows_scale_mean           |-> ScaleOut(tk, DimR, RE(tk), ScaleMean, FALSE),
    rows_scale_median         |-> ScaleOut(tk, DimR, RE(tk), ScaleMedian, FALSE),
    columns_scale_mean        |-> ScaleOut(tk, DimC, CE(tk), ScaleMean, FALSE),
    columns_scale_median      |-> ScaleOut(tk, DimC, CE(tk), ScaleMedian, FALSE),
    rows_scale_mean_margin      |-> ScaleMarginMean(tk, DimC),
    columns_scale_mean_margin   |-> ScaleMarginMean(tk, DimR),
    rows_scale_median_margin    |-> ScaleMarginMedian(tk, DimC),
    columns_scale_median_margin |-> ScaleMarginMedian(tk, DimR) ]
C14H_1D(tk) ==
  [ scale_mean    |-> IF SNone(tk) THEN NoneV ELSE Num0(Div(R(SScaleS1(tk)), R(SScaleN(tk)))),
    scale_median  |-> IF SNone(tk) THEN NoneV
                      ELSE IF MedianOf(DimR, SScaleCnt(tk)) = AnyVal THEN OpenV
                      ELSE Num0(MedianOf(DimR, SScaleCnt(tk))) ]

C15_2D(tk) ==
  [ row_share_sum    |-> Num2(ShareM("row", tk, RE(tk), CE(tk))),
    column_share_sum |-> Num2(ShareM("col", tk, RE(tk), CE(tk))),
    total_share_sum  |-> Num2(ShareM("table", tk, RE(tk), CE(tk))),
    sums             |-> Num2(YStatM("sum", tk, RE(tk), CE(tk))) ]
C15_1D(tk) ==
  [ share_sum |-> Num1(SShareV(tk, RE(tk))),
    sums      |-> Num1(SYStatV("sum", tk, RE(tk))) ]
C16_2D(tk) ==
  [ column_index |-> Num2(ColIndexM(tk, RE(tk), CE(tk))) ]
\* (the proportions and standard errors the estimates are built from are public too)
C17_2D(tk) ==
  [ population_counts      |-> Num2(PopCountM(tk, RE(tk), CE(tk))),
    population_counts_moe  |-> SqrtS2(PopSE2M(tk, RE(tk), CE(tk)), PopScale),
    population_proportions |-> Num2(Mat(Len(RE(tk)), Len(CE(tk)),
                                        LAMBDA i, j : PopProp(tk, RE(tk)[i], CE(tk)[j]))),
    population_std_err     |-> Sqrt2(PopSE2M(tk, RE(tk), CE(tk))),
    population_fraction    |-> Num0(Fraction) ]
C17_1D(tk) ==
  [ population_counts      |-> Num1(SPopCountV(tk, RE(tk))),
    population_counts_moe  |-> SqrtS1(SPopSE2V(tk, RE(tk)), PopScale),
    population_proportions |-> Num1(Vec(Len(RE(tk)), LAMBDA i : SPopProp(tk, RE(tk)[i]))),
    population_proportion_stderrs |-> Sqrt1(SPopSE2V(tk, RE(tk))),
    population_fraction    |-> Num0(Fraction) ]

\* display orders in both renderings, labels (as references) and extents
Bogus(d, dc, ord) == [k |-> "bogus", nd |-> 0, v |-> BogusIds(d, dc, ord)]

\* payload_order: base elements in payload order whatever the order transform, the
\* subtotals at their anchors, hidden / pruned elements removed, 'ins_N' rendering.
\* Left open when the variable and the analysis both define insertions.
PayloadOrderOut(d, dc, hid) ==
  IF dc.hasx /\ dc.vins # << >> THEN AnyOrder
  ELSE Bogus(d, dc, AnchoredOrder(d, [dc EXCEPT !.order.type = "payload"], hid))

DerivedIdxs(d, ord) ==
  Exact(SelectSeq([i \in 1..Len(ord) |-> i - 1],
                  LAMBDA i : ord[i + 1] > 0 /\ IsDerivedPos(d, ord[i + 1])))

C07_2D(tk) ==
  [ payload_order       |-> PayloadOrderOut(DimR, RowDC, RowHid(tk)),
    row_order_signed    |-> Exact(SignedIndexes(DimR, RowDC, RowOrder(tk))),
    column_order_signed |-> Exact(SignedIndexes(DimC, ColDC, ColOrder(tk))),
    row_order_bogus     |-> Bogus(DimR, RowDC, RowOrder(tk)),
    column_order_bogus  |-> Bogus(DimC, ColDC, ColOrder(tk)),
    row_pos             |-> Positions(RowOrder(tk)),
    column_pos          |-> Positions(ColOrder(tk)),
    shape               |-> Exact(<<Len(RowOrder(tk)), Len(ColOrder(tk))>>),
    inserted_row_idxs    |-> IdxWhere(RE(tk), IsIns),
    inserted_column_idxs |-> IdxWhere(CE(tk), IsIns),
    derived_row_idxs     |-> DerivedIdxs(DimR, RowOrder(tk)),
    derived_column_idxs  |-> DerivedIdxs(DimC, ColOrder(tk)),
    is_empty            |-> Exact(Len(RowOrder(tk)) = 0 \/ Len(ColOrder(tk)) = 0) ]
C07_1D(tk) ==
  [ payload_order    |-> PayloadOrderOut(DimR, RowDC, RowHid(tk)),
    row_order_signed |-> Exact(SignedIndexes(DimR, RowDC, RowOrder(tk))),
    row_order_bogus  |-> Bogus(DimR, RowDC, RowOrder(tk)),
    row_pos          |-> Positions(RowOrder(tk)),
    shape            |-> Exact(<<Len(RowOrder(tk))>>),
    inserted_row_idxs |-> IdxWhere(RE(tk), IsIns),
    is_empty         |-> Exact(Len(RowOrder(tk)) = 0) ]

C08_2D(tk) ==
  [ row_order_signed    |-> OrderOut(DimR, tk, RowHid(tk), RowSubsPruned(tk)),
    column_order_signed |-> OrderOut(DimC, tk, ColHid(tk), ColSubsPruned(tk)) ]
C08_1D(tk) ==
  [ row_order_signed |-> OrderOut(DimR, tk, RowHid(tk), FALSE) ]

C20_2D(tk) ==
  [ smoothed_column_proportions |-> Num2(SmoothedColProps(tk, RE(tk), CE(tk))),
    smoothed_column_percentages |-> Num2(Times100(SmoothedColProps(tk, RE(tk), CE(tk)))),
    smoothed_column_index       |-> Num2(SmoothedColIndex(tk, RE(tk), CE(tk))),
    smoothed_columns_scale_mean |-> SmoothedColsScaleMean(tk, CE(tk)),
    column_proportions          |-> Num2(ColPropM(tk, RE(tk), CE(tk))) ]
C20_2D_Y(tk) ==
  [ smoothed_means |-> Num2(SmoothedMeans(tk, RE(tk), CE(tk))) ]
C20_1D_Y(tk) ==
  [ smoothed_means |-> Num1(SSmoothedMeans(tk, RE(tk))) ]

\* one t / p matrix per selected display column, keyed "..._t_stats__<i>" (0-based)
C13_2D(tk) ==
  LET RS == RE(tk)  CS == CE(tk) IN
  [ pairwise_t_stats |-> [sel \in 1..Len(CS) |-> PwTMat(tk, RS, CS, sel)],
    \* the older accessor pairwise_significance_tests[i].t_stats states the same comparison
    legacy_pairwise_t_stats |-> [sel \in 1..Len(CS) |-> PwTMatLegacy(tk, RS, CS, sel)],
    pairwise_p_vals  |-> [sel \in 1..Len(CS) |-> PwPMat(tk, RS, CS, sel)],
    pairwise_indices |-> PwIdx(tk, RS, CS) ]
C13_2D_OV(tk) ==
  LET RS == RE(tk)  CS == CE(tk) IN
  [ pairwise_t_stats |-> [sel \in 1..Len(CS) |-> PwOvTMat(tk, RS, CS, sel)],
    pairwise_p_vals  |-> [sel \in 1..Len(CS) |-> PwOvPMat(tk, RS, CS, sel)],
    pairwise_indices |-> PwOvIdx(tk, RS, CS) ]
C13_2D_Y(tk) ==
  LET RS == RE(tk)  CS == CE(tk) IN
  [ pairwise_means_t_stats |-> [sel \in 1..Len(CS) |-> PwMeansTMat(tk, RS, CS, sel)],
    pairwise_means_p_vals  |-> [sel \in 1..Len(CS) |-> PwMeansPMat(tk, RS, CS, sel)],
    pairwise_means_indices |-> PwMeansIdx(tk, RS, CS) ]

C11_1D(tk) ==
  [ table_proportion_stddevs |-> Sqrt1(SVarV(tk, RE(tk))),
    table_proportion_stderrs |-> Sqrt1(SSE2V(tk, RE(tk))),
    table_proportion_moes    |-> SqrtS1(SSE2V(tk, RE(tk)), Z975) ]

\* 0-D response (a numeric summary without dimensions): the single "nub" partition
NubCount == IF ValidCounts THEN CellNV(<< >>) ELSE CellN(CountAxes, << >>)
NubPart ==
  [ means            |-> Num0(CellMean(<< >>)),
    unweighted_count |-> Num0(R(NubCount)),
    is_empty         |-> Exact(NubCount = 0),
    table_name       |-> NoneV ]

\* the cube-level arrays: the wire tensors restricted to valid elements, flattened
\* The cube-level arrays come in the order of the reported dimensions: the numeric
\* array axis, stored innermost, is reported (and indexed) first.
LogicalIdxAll ==
  IF HasNumArr
  THEN FlattenSeq([i \in 1..Dims[NumArrDim].n |->
                    [t \in 1..Len(IdxCount) |-> IdxCount[t] \o <<i>>]])
  ELSE IdxAll

CubeLevel ==
  LET cntIdx == IF HasY /\ ValidCounts THEN ValidOnly(Axes, LogicalIdxAll) ELSE ValidOnly(CountAxes, IdxCount)
      W(i) == IF HasY /\ ValidCounts THEN (IF Weighted THEN CellWV(i) ELSE CellNV(i))
              ELSE (IF Weighted THEN CellW(CountAxes, i) ELSE CellN(CountAxes, i))
      U(i) == IF HasY /\ ValidCounts THEN CellNV(i) ELSE CellN(CountAxes, i)
  IN  [ counts            |-> Num1([t \in 1..Len(cntIdx) |-> RSt(W(cntIdx[t]), WS)]),
        unweighted_counts |-> Num1([t \in 1..Len(cntIdx) |-> R(U(cntIdx[t]))]),
        \* header fields: the number of rows considered, and the missing count -- that of
        \* the numeric measure when there is one
        n_responses       |-> Num0(R(Header.n)),
        missing           |-> Num0(R(IF HasY THEN Header.ymissing ELSE Header.missing)) ]
\* valid_counts_summary_range: the unweighted valid counts summed over every axis that is
\* not an item axis (categories, and the selected / not-selected planes of an MR), which
\* leaves one total per combination of array items; reported as (min, max)
ItemAxes == {a \in 1..Len(Axes) : Axes[a].role = "el" /\ IsItemLike(Axes[a].d)}
ItemKey(idx) == [a \in ItemAxes |-> idx[a]]
VCSummaryRange ==
  LET vIdx == ValidOnly(Axes, IdxAll)
      keys == {ItemKey(vIdx[t]) : t \in 1..Len(vIdx)}
      tot(k) == ISum([t \in 1..Len(vIdx) |-> IF ItemKey(vIdx[t]) = k THEN CellNV(vIdx[t]) ELSE 0])
      vals == {tot(k) : k \in keys}
  IN  IF ~(HasY /\ ValidCounts) THEN NoneV
      \* With an MR dimension the library sums over the axes it finds by position in the
      \* list of APPARENT dimension types, which has no entry for the selection axis: the
      \* planes "selected" / "not selected" stay apart (MR last) or the wrong axis is
      \* summed (MR first).  No listed property covers this accessor: left open there.
      ELSE IF \E d \in DimSet : Kind(d) = "mr" THEN OpenV
      ELSE Num1(<<R(Min(vals)), R(Max(vals))>>)
CubeLevelY ==
  LET yIdx == ValidOnly(Axes, LogicalIdxAll) IN
  [ means |-> Num1([t \in 1..Len(yIdx) |-> CellMean(yIdx[t])]),
    valid_counts_summary_range |-> VCSummaryRange ]

\* C06: everything a partition of a 3-D response reports, decided by the same
\* respondent-level meaning with the table element in "sel" mode (members of the table
\* element; for an MR table dimension: who selected the item)
C06_2D(tk) ==
  C01_2D(tk) @@ C02_2D(tk) @@ C03_2D(tk) @@ C11_2D(tk) @@ C12_2D(tk)
  @@ (IF (Kind(DimR) \in {"cat", "mr"}) /\ (Kind(DimC) \in {"cat", "mr"})
      THEN C16_2D(tk) ELSE [column_pos |-> Positions(ColOrder(tk))])

Part(tk) ==
  CASE Family = "c01" /\ ND = 1 -> IF HasY THEN C01_1D(tk) @@ C01_1D_Y(tk) ELSE C01_1D(tk)
    [] Family = "c01" /\ ND > 1 -> IF HasY THEN C01_2D(tk) @@ C01_2D_Y(tk) ELSE C01_2D(tk)
    [] Family = "c02" /\ ND = 1 -> C02_1D(tk)
    [] Family = "c02" /\ ND > 1 -> C02_2D(tk)
    [] Family = "c03" /\ ND = 1 -> C03_1D(tk)
    [] Family = "c03" /\ ND > 1 -> C03_2D(tk)
    [] Family = "c11" /\ ND = 1 -> C11_1D(tk)
    [] Family = "c11" /\ ND > 1 -> C11_2D(tk)
    [] Family = "c12" /\ ND > 1 -> C12_2D(tk)
    [] Family = "c12h" /\ ND > 1 -> C12H_2D(tk)
    [] Family = "c14" /\ ND = 1 -> C14_1D(tk)
    [] Family = "c14" /\ ND > 1 -> C14_2D(tk)
    [] Family = "c14h" /\ ND = 1 -> C14H_1D(tk)
    [] Family = "c14h" /\ ND > 1 -> C14H_2D(tk)
    [] Family = "c15" /\ ND = 1 -> C15_1D(tk)
    [] Family = "c15" /\ ND > 1 -> C15_2D(tk)
    [] Family = "c16" /\ ND > 1 -> C16_2D(tk)
    [] Family = "c17" /\ ND = 1 -> C17_1D(tk)
    [] Family = "c17" /\ ND > 1 -> C17_2D(tk)
    [] Family \in {"c07", "c09"} /\ ND = 1 -> C07_1D(tk)
    [] Family \in {"c07", "c09"} /\ ND > 1 -> C07_2D(tk)
    [] Family = "c08" /\ ND = 1 -> C08_1D(tk)
    [] Family = "c08" /\ ND > 1 -> C08_2D(tk)
    [] Family = "c20" /\ ND = 1 -> C20_1D_Y(tk)
    [] Family = "c20" /\ ND > 1 -> IF HasY THEN C20_2D(tk) @@ C20_2D_Y(tk) ELSE C20_2D(tk)
    [] Family = "c13" /\ ND > 1 -> IF HasY THEN C13_2D_Y(tk)
                                   ELSE IF Overlaps THEN C13_2D_OV(tk) ELSE C13_2D(tk)
    [] Family = "c06" /\ ND = 1 -> C01_1D(tk) @@ C02_1D(tk) @@ C03_1D(tk) @@ C11_1D(tk)
    \* member cubes of a multi-cube set that the library rebuilds (single-column filter
    \* cube): every constructor argument must survive, so the population estimates, the
    \* masks and the effect of the display transforms are read too
    [] Family = "c06f" /\ ND = 1 -> C01_1D(tk) @@ C02_1D(tk) @@ C03_1D(tk) @@ C11_1D(tk)
                                    @@ C17_1D(tk)
                                    @@ [shape |-> Exact(<<Len(RowOrder(tk))>>)]
    [] Family = "c06" /\ ND > 1 -> IF HasY THEN C06_2D(tk) @@ C01_2D_Y(tk) ELSE C06_2D(tk)
    \* C04 names every measure "defined for a subtotal": the errors, residuals, scale
    \* statistics and population estimates ride along with the counts and proportions
    [] Family = "c04" /\ ND = 1 ->
         IF HasY THEN C04_1D(tk) @@ C01_1D_Y(tk)
         ELSE C04_1D(tk) @@ C11_1D(tk) @@ C14_1D(tk) @@ C17_1D(tk)
    [] Family = "c04" /\ ND > 1 ->
         IF HasY THEN C04_2D(tk) @@ C01_2D_Y(tk)
         ELSE C04_2D(tk) @@ C11_2D(tk) @@ C12_2D(tk) @@ C14_2D(tk) @@ C17_2D(tk)

\* layout of the partition, for the harness' mismatch signatures and label mapping
Aux(tk) ==
  [ rows  |-> RowOrder(tk), cols |-> ColOrder(tk),
    tpos  |-> IF ND = 3 THEN (IF tk.item # 0 THEN tk.item ELSE CHOOSE x \in tk.pos : TRUE) ELSE 0,
    rdiff |-> [i \in 1..Len(RE(tk)) |-> IsDiff(RE(tk)[i])],
    cdiff |-> [j \in 1..Len(CE(tk)) |-> IsDiff(CE(tk)[j])],
    rsubs |-> IF ND >= 1 THEN LiveIdx(DimR, InsSource(RowDC)) ELSE << >>,
    csubs |-> IF ND >= 2 THEN LiveIdx(DimC, InsSource(ColDC)) ELSE << >> ]

Out ==
  [ scn   |-> Scn,
    nresp |-> NResp,
    ci    |-> ci,
    flat  |-> Flat,
    hdr   |-> Header,
    flaty |-> IF HasY THEN FlatY ELSE [none |-> 0],
    flatov |-> IF Overlaps THEN [ov |-> FlatOv(FALSE), vov |-> FlatOv(TRUE)] ELSE [none |-> 0],
    aux   |-> IF ND = 0 THEN << >> ELSE [t \in 1..NParts |-> Aux(TableEls[t])],
    cube  |-> IF Family = "c01" THEN (IF HasY THEN CubeLevel @@ CubeLevelY ELSE CubeLevel)
              ELSE [none |-> 0],
    parts |-> IF ND = 0 THEN << NubPart >> ELSE [t \in 1..NParts |-> Part(TableEls[t])] ]

EmitInv == PrintT(ToJson(Out))
=============================================================================
