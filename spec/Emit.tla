-------------------------------- MODULE Emit --------------------------------
(***************************************************************************)
(* Emission of one JSON line per distinct state: the wire tensors the      *)
(* server would send (Flat, FlatY) and the meaning of the outputs of every *)
(* partition that the property family under check is about.  The replayer  *)
(* wraps the tensors in the response envelope, feeds the real library, and *)
(* compares each output.                                                   *)
(***************************************************************************)
EXTENDS Slice, View, Json

CONSTANTS
  Scn,       \* scenario name (string), echoed in every line
  Family,    \* which outputs to emit: "c01" | "c02" | "c03"
  MinBase    \* mask threshold used for min_base_size_mask

\* display order as references (n > 0: payload position, n < 0: subtotal); the
\* replayer maps them to the labels the scenario gave those elements
Positions(ord) == Exact(ord)

C01_2D(tk) ==
  [ counts            |-> Num2(CountM(tk, RE, CE, WS)),
    unweighted_counts |-> Num2(CountM(tk, RE, CE, "n")),
    row_pos           |-> Positions(RowOrder),
    column_pos        |-> Positions(ColOrder) ]
C01_2D_Y(tk) ==
  [ means   |-> Num2(YStatM("mean", tk, RE, CE)),
    sums    |-> Num2(YStatM("sum", tk, RE, CE)),
    stddev  |-> Num2(YStatM("stddev", tk, RE, CE)),
    medians |-> Num2(YStatM("median", tk, RE, CE)) ]
C01_1D(tk) ==
  [ counts            |-> Num1(SCountV(tk, RE, WS)),
    unweighted_counts |-> Num1(SCountV(tk, RE, "n")),
    row_pos           |-> Positions(RowOrder) ]
C01_1D_Y(tk) ==
  [ means   |-> Num1(SYStatV("mean", tk, RE)),
    sums    |-> Num1(SYStatV("sum", tk, RE)),
    stddev  |-> Num1(SYStatV("stddev", tk, RE)),
    medians |-> Num1(SYStatV("median", tk, RE)) ]

C02_2D(tk) ==
  [ row_weighted_bases      |-> Num2(RowBaseM(tk, RE, CE, WS)),
    row_unweighted_bases    |-> Num2(RowBaseM(tk, RE, CE, "n")),
    column_weighted_bases   |-> Num2(ColBaseM(tk, RE, CE, WS)),
    column_unweighted_bases |-> Num2(ColBaseM(tk, RE, CE, "n")),
    table_weighted_bases    |-> Num2(TableBaseM(tk, RE, CE, WS)),
    table_unweighted_bases  |-> Num2(TableBaseM(tk, RE, CE, "n")),
    rows_margin             |-> RowsMargin(tk, RE, CE, WS),
    rows_base               |-> RowsMargin(tk, RE, CE, "n"),
    columns_margin          |-> ColsMargin(tk, RE, CE, WS),
    columns_base            |-> ColsMargin(tk, RE, CE, "n"),
    table_margin            |-> TableBaseOut(tk, RE, CE, WS),
    table_base              |-> TableBaseOut(tk, RE, CE, "n"),
    table_base_range        |-> TableBaseRange(tk, "n"),
    table_margin_range      |-> TableBaseRange(tk, WS),
    min_base_size_mask__table_mask  |-> TableMask(tk, RE, CE, MinBase),
    min_base_size_mask__row_mask    |-> RowMask(tk, RE, CE, MinBase),
    min_base_size_mask__column_mask |-> ColMask(tk, RE, CE, MinBase) ]
C02_1D(tk) ==
  [ weighted_bases     |-> Num1(SBaseV(tk, RE, WS)),
    unweighted_bases   |-> Num1(SBaseV(tk, RE, "n")),
    table_base_range   |-> SBaseRange(tk, "n"),
    table_margin_range |-> SBaseRange(tk, WS),
    min_base_size_mask |-> SMask(tk, RE, MinBase) ]

C03_2D(tk) ==
  [ row_proportions         |-> Num2(RowPropM(tk, RE, CE)),
    column_proportions      |-> Num2(ColPropM(tk, RE, CE)),
    table_proportions       |-> Num2(TablePropM(tk, RE, CE)),
    row_percentages         |-> Num2(Times100(RowPropM(tk, RE, CE))),
    column_percentages      |-> Num2(Times100(ColPropM(tk, RE, CE))),
    table_percentages       |-> Num2(Times100(TablePropM(tk, RE, CE))),
    rows_margin_proportion    |-> RowsMarginProp(tk, RE, CE),
    columns_margin_proportion |-> ColsMarginProp(tk, RE, CE) ]
C03_1D(tk) ==
  [ table_proportions  |-> Num1(SPropV(tk, RE)),
    table_percentages  |-> Num1([i \in 1..Len(RE) |-> Mul(R(100), SPropV(tk, RE)[i])]) ]

\* display positions (0-based) of inserted subtotals and of differences
IdxWhere(E, P(_)) == Exact(SelectSeq([i \in 1..Len(E) |-> i - 1], LAMBDA i : P(E[i + 1])))

C04_2D(tk) ==
  C01_2D(tk) @@ C03_2D(tk) @@
  [ row_weighted_bases      |-> Num2(RowBaseM(tk, RE, CE, WS)),
    row_unweighted_bases    |-> Num2(RowBaseM(tk, RE, CE, "n")),
    column_weighted_bases   |-> Num2(ColBaseM(tk, RE, CE, WS)),
    column_unweighted_bases |-> Num2(ColBaseM(tk, RE, CE, "n")),
    table_weighted_bases    |-> Num2(TableBaseM(tk, RE, CE, WS)),
    table_unweighted_bases  |-> Num2(TableBaseM(tk, RE, CE, "n")),
    inserted_row_idxs       |-> IdxWhere(RE, IsIns),
    inserted_column_idxs    |-> IdxWhere(CE, IsIns),
    diff_row_idxs           |-> IdxWhere(RE, IsDiff),
    diff_column_idxs        |-> IdxWhere(CE, IsDiff) ]
C04_1D(tk) ==
  C01_1D(tk) @@ C03_1D(tk) @@
  [ weighted_bases     |-> Num1(SBaseV(tk, RE, WS)),
    unweighted_bases   |-> Num1(SBaseV(tk, RE, "n")),
    inserted_row_idxs  |-> IdxWhere(RE, IsIns),
    diff_row_idxs      |-> IdxWhere(RE, IsDiff) ]

C11_2D(tk) ==
  [ row_proportion_variances    |-> Num2(VarM("row", tk, RE, CE)),
    column_proportion_variances |-> Num2(VarM("col", tk, RE, CE)),
    table_proportion_variances  |-> Num2(VarM("table", tk, RE, CE)),
    row_std_dev     |-> Sqrt2(VarM("row", tk, RE, CE)),
    column_std_dev  |-> Sqrt2(VarM("col", tk, RE, CE)),
    table_std_dev   |-> Sqrt2(VarM("table", tk, RE, CE)),
    row_std_err     |-> Sqrt2(SE2M("row", tk, RE, CE)),
    column_std_err  |-> Sqrt2(SE2M("col", tk, RE, CE)),
    table_std_err   |-> Sqrt2(SE2M("table", tk, RE, CE)),
    row_proportions_moe    |-> SqrtS2(SE2M("row", tk, RE, CE), Z975),
    column_proportions_moe |-> SqrtS2(SE2M("col", tk, RE, CE), Z975),
    table_proportions_moe  |-> SqrtS2(SE2M("table", tk, RE, CE), Z975) ]
C12_2D(tk) ==
  LET zm == ZScoreM(tk, RE, CE) IN
  [ zscores |-> SSqrt2(zm),
    pvals   |-> TailNormal2(zm) ]

C14_2D(tk) ==
  [ rows_scale_mean           |-> ScaleOut(tk, DimR, RE, ScaleMean, FALSE),
    rows_scale_median         |-> ScaleOut(tk, DimR, RE, ScaleMedian, FALSE),
    rows_scale_mean_stddev    |-> ScaleOut(tk, DimR, RE, ScaleVar, TRUE),
    rows_scale_mean_stderr    |-> ScaleOut(tk, DimR, RE, ScaleSE2, TRUE),
    columns_scale_mean        |-> ScaleOut(tk, DimC, CE, ScaleMean, FALSE),
    columns_scale_median      |-> ScaleOut(tk, DimC, CE, ScaleMedian, FALSE),
    columns_scale_mean_stddev |-> ScaleOut(tk, DimC, CE, ScaleVar, TRUE),
    columns_scale_mean_stderr |-> ScaleOut(tk, DimC, CE, ScaleSE2, TRUE),
    rows_scale_mean_margin      |-> ScaleMarginMean(tk, DimC),
    columns_scale_mean_margin   |-> ScaleMarginMean(tk, DimR),
    rows_scale_median_margin    |-> ScaleMarginMedian(tk, DimC),
    columns_scale_median_margin |-> ScaleMarginMedian(tk, DimR) ]
C14_1D(tk) ==
  [ scale_mean    |-> IF SNone(tk) THEN NoneV ELSE Num0(Div(R(SScaleS1(tk)), R(SScaleN(tk)))),
    scale_median  |-> IF SNone(tk) THEN NoneV ELSE Num0(MedianOf(DimR, SScaleCnt(tk))),
    scale_std_dev |-> IF SNone(tk) THEN NoneV
                      ELSE [k |-> "sqrt", nd |-> 0, v |-> SScaleVarR(tk), scale |-> One],
    scale_std_err |-> IF SNone(tk) THEN NoneV
                      ELSE [k |-> "sqrt", nd |-> 0, v |-> Div(SScaleVarR(tk), R(SScaleN(tk))),
                            scale |-> One] ]

C15_2D(tk) ==
  [ row_share_sum    |-> Num2(ShareM("row", tk, RE, CE)),
    column_share_sum |-> Num2(ShareM("col", tk, RE, CE)),
    total_share_sum  |-> Num2(ShareM("table", tk, RE, CE)),
    sums             |-> Num2(YStatM("sum", tk, RE, CE)) ]
C15_1D(tk) ==
  [ share_sum |-> Num1(SShareV(tk, RE)),
    sums      |-> Num1(SYStatV("sum", tk, RE)) ]
C16_2D(tk) ==
  [ column_index |-> Num2(ColIndexM(tk, RE, CE)) ]
C17_2D(tk) ==
  [ population_counts     |-> Num2(PopCountM(tk, RE, CE)),
    population_counts_moe |-> SqrtS2(PopSE2M(tk, RE, CE), PopScale),
    population_fraction   |-> Num0(Fraction) ]
C17_1D(tk) ==
  [ population_counts     |-> Num1(SPopCountV(tk, RE)),
    population_counts_moe |-> SqrtS1(SPopSE2V(tk, RE), PopScale),
    population_fraction   |-> Num0(Fraction) ]

C11_1D(tk) ==
  [ table_proportion_stddevs |-> Sqrt1(SVarV(tk, RE)),
    table_proportion_stderrs |-> Sqrt1(SSE2V(tk, RE)),
    table_proportion_moes    |-> SqrtS1(SSE2V(tk, RE), Z975) ]

\* 0-D response (a numeric summary without dimensions): the single "nub" partition
NubPart ==
  [ means            |-> Num0(CellMean(<< >>)),
    unweighted_count |-> Num0(R(IF ValidCounts THEN CellNV(<< >>) ELSE CellN(CountAxes, << >>))) ]

\* the cube-level arrays: the wire tensors restricted to valid elements, flattened
\* The cube-level arrays come in the order of the reported dimensions: the numeric
\* array axis, stored innermost, is reported (and indexed) first.
LogicalIdxAll ==
  IF HasNumArr
  THEN FlattenSeq([i \in 1..Dims[NumArrDim].n |->
                    [t \in 1..Len(IdxCount) |-> IdxCount[t] \o <<i>>]])
  ELSE IdxAll

CubeLevel ==
  LET cntIdx == IF HasY /\ ValidCounts THEN ValidOnly(Axes, LogicalIdxAll) ELSE ValidOnly(CountAxes, IdxCount)
      W(i) == IF HasY /\ ValidCounts THEN (IF Weighted THEN CellWV(i) ELSE CellNV(i))
              ELSE (IF Weighted THEN CellW(CountAxes, i) ELSE CellN(CountAxes, i))
      U(i) == IF HasY /\ ValidCounts THEN CellNV(i) ELSE CellN(CountAxes, i)
  IN  [ counts            |-> Num1([t \in 1..Len(cntIdx) |-> R(W(cntIdx[t]))]),
        unweighted_counts |-> Num1([t \in 1..Len(cntIdx) |-> R(U(cntIdx[t]))]) ]
CubeLevelY ==
  LET yIdx == ValidOnly(Axes, LogicalIdxAll) IN
  [ means |-> Num1([t \in 1..Len(yIdx) |-> CellMean(yIdx[t])]) ]

Part(tk) ==
  CASE Family = "c01" /\ ND = 1 -> IF HasY THEN C01_1D(tk) @@ C01_1D_Y(tk) ELSE C01_1D(tk)
    [] Family = "c01" /\ ND > 1 -> IF HasY THEN C01_2D(tk) @@ C01_2D_Y(tk) ELSE C01_2D(tk)
    [] Family = "c02" /\ ND = 1 -> C02_1D(tk)
    [] Family = "c02" /\ ND > 1 -> C02_2D(tk)
    [] Family = "c03" /\ ND = 1 -> C03_1D(tk)
    [] Family = "c03" /\ ND > 1 -> C03_2D(tk)
    [] Family = "c11" /\ ND = 1 -> C11_1D(tk)
    [] Family = "c11" /\ ND > 1 -> C11_2D(tk)
    [] Family = "c12" /\ ND > 1 -> C12_2D(tk)
    [] Family = "c14" /\ ND = 1 -> C14_1D(tk)
    [] Family = "c14" /\ ND > 1 -> C14_2D(tk)
    [] Family = "c15" /\ ND = 1 -> C15_1D(tk)
    [] Family = "c15" /\ ND > 1 -> C15_2D(tk)
    [] Family = "c16" /\ ND > 1 -> C16_2D(tk)
    [] Family = "c17" /\ ND = 1 -> C17_1D(tk)
    [] Family = "c17" /\ ND > 1 -> C17_2D(tk)
    [] Family = "c04" /\ ND = 1 -> IF HasY THEN C04_1D(tk) @@ C01_1D_Y(tk) ELSE C04_1D(tk)
    [] Family = "c04" /\ ND > 1 -> IF HasY THEN C04_2D(tk) @@ C01_2D_Y(tk) ELSE C04_2D(tk)

\* layout of the partition, for the harness' mismatch signatures and label mapping
Aux ==
  [ rows  |-> RowOrder, cols |-> ColOrder,
    rdiff |-> [i \in 1..Len(RE) |-> IsDiff(RE[i])],
    cdiff |-> [j \in 1..Len(CE) |-> IsDiff(CE[j])],
    rsubs |-> IF ND >= 1 THEN LiveIdx(DimR, InsSource(RowDC)) ELSE << >>,
    csubs |-> IF ND >= 2 THEN LiveIdx(DimC, InsSource(ColDC)) ELSE << >> ]

Out ==
  [ scn   |-> Scn,
    nresp |-> NResp,
    ci    |-> ci,
    flat  |-> Flat,
    flaty |-> IF HasY THEN FlatY ELSE [none |-> 0],
    aux   |-> Aux,
    cube  |-> IF Family = "c01" THEN (IF HasY THEN CubeLevel @@ CubeLevelY ELSE CubeLevel)
              ELSE [none |-> 0],
    parts |-> IF ND = 0 THEN << NubPart >> ELSE [t \in 1..NParts |-> Part(TableEls[t])] ]

EmitInv == PrintT(ToJson(Out))
=============================================================================
