------------------------------- MODULE Payload ------------------------------
(***************************************************************************)
(* The server: what the Crunch back end puts on the wire for the current   *)
(* survey.  Tensor cell = statistic over the respondents consistent with   *)
(* an index tuple over ALL payload axes (missing categories and the MR     *)
(* selected/other/missing axis included).  Flat(st) = row-major flattening *)
(* in payload axis order; the numeric-array axis is stored innermost even  *)
(* though the library reports its dimension first.                         *)
(***************************************************************************)
EXTENDS Survey

\* physical axes of the payload tensors
RECURSIVE AxesFrom(_)
AxesFrom(d) ==
  IF d > ND THEN <<>>
  ELSE (CASE Kind(d) = "mr" -> << [d |-> d, role |-> "el",  size |-> Dims[d].n],
                                  [d |-> d, role |-> "sel", size |-> 3] >>
          [] Kind(d) = "numarr" -> <<>>
          [] OTHER -> << [d |-> d, role |-> "el", size |-> Dims[d].n] >>)
       \o AxesFrom(d + 1)

CountAxes == AxesFrom(1)     \* axes of `result.counts` (no numeric-array axis)
Axes == IF HasNumArr
        THEN CountAxes \o << [d |-> NumArrDim, role |-> "el", size |-> Dims[NumArrDim].n] >>
        ELSE CountAxes

AxisOfDim(ax, d) == CHOOSE a \in 1..Len(ax) : ax[a].d = d /\ ax[a].role = "el"

\* row-major sequence of index tuples for a sequence of axis sizes
RECURSIVE IdxTuples(_)
IdxTuples(sz) ==
  IF sz = <<>> THEN << <<>> >>
  ELSE LET rest == IdxTuples(Tail(sz))
       IN  FlattenSeq([i \in 1..Head(sz) |-> [t \in 1..Len(rest) |-> <<i>> \o rest[t]]])

Sizes(ax) == [a \in 1..Len(ax) |-> ax[a].size]
IdxAll   == IdxTuples(Sizes(Axes))
IdxCount == IdxTuples(Sizes(CountAxes))

\* respondent with profile p falls in tensor cell idx (over axes ax)
Consistent(p, ax, idx) ==
  \A a \in 1..Len(ax) :
    LET d == ax[a].d  v == VarOf(d) IN
    IF ax[a].role = "sel" THEN p[v][idx[a - 1]] = idx[a]
    ELSE CASE Kind(d) = "cat"   -> p[v][1] = idx[a]
           [] Kind(d) = "cacat" -> p[v][idx[AxisOfDim(ax, ItemsDim(v))]] = idx[a]
           [] OTHER -> TRUE

\* numeric answer of profile p relevant to cell idx (NA if none)
YOf(p, idx) ==
  IF HasNumArr THEN p[VarOf(NumArrDim)][idx[Len(Axes)]]
  ELSE IF HasY THEN p["y"][1] ELSE NA

\* integer statistics of a tensor cell
CellN(ax, idx)  == SumResp(LAMBDA k : IF Consistent(k.p, ax, idx) THEN 1 ELSE 0)
CellW(ax, idx)  == SumResp(LAMBDA k : IF Consistent(k.p, ax, idx) THEN k.w ELSE 0)
CellW2(ax, idx) == SumResp(LAMBDA k : IF Consistent(k.p, ax, idx) THEN k.w * k.w ELSE 0)
InY(k, idx)     == Consistent(k.p, Axes, idx) /\ YOf(k.p, idx) # NA
CellNV(idx)  == SumResp(LAMBDA k : IF InY(k, idx) THEN 1 ELSE 0)
CellWV(idx)  == SumResp(LAMBDA k : IF InY(k, idx) THEN k.w ELSE 0)
CellWY(idx)  == SumResp(LAMBDA k : IF InY(k, idx) THEN k.w * YOf(k.p, idx) ELSE 0)
CellWYY(idx) == SumResp(LAMBDA k : IF InY(k, idx) THEN k.w * YOf(k.p, idx) * YOf(k.p, idx) ELSE 0)

\* numeric measures of a tensor cell as rationals; NaN = the server's {"?": -8}
CellMean(idx) == Div(R(CellWY(idx)), R(CellWV(idx)))
CellSum(idx)  == IF CellNV(idx) = 0 /\ SumNaN THEN NaN ELSE RW(CellWY(idx))
\* the library passes stddev and median through untouched; any cell-determined
\* number will do.  "stddev": the population variance of y in the cell;
\* "median": twice the mean plus one.
CellStd(idx)  == Sub(Div(R(CellWYY(idx)), R(CellWV(idx))), Sq(CellMean(idx)))
CellMed(idx)  == Add(Mul(R(2), CellMean(idx)), One)

\* index tuples all of whose components are valid elements (a missing category or
\* the "missing" plane of an MR selection axis is not)
ValidIdx(ax, idx) ==
  \A a \in 1..Len(ax) :
    IF ax[a].role = "sel" THEN idx[a] \in {SEL, OTH}
    ELSE idx[a] \notin Dims[ax[a].d].miss
ValidOnly(ax, idxs) == SelectSeq(idxs, LAMBDA i : ValidIdx(ax, i))

FlatI(f(_), idxs) == [t \in 1..Len(idxs) |-> f(idxs[t])]

\* the measures as the response carries them
Flat ==
  [ counts |-> FlatI(LAMBDA i : CellN(CountAxes, i), IdxCount),
    count  |-> FlatI(LAMBDA i : RSt(CellW(CountAxes, i), "w"), IdxCount),
    w2     |-> FlatI(LAMBDA i : RSt(CellW2(CountAxes, i), "w2"), IdxCount) ]

\* overlap tensors of a response whose LAST dimension is MR: one extra axis b over the
\* items of that dimension.  overlap[.., b] = weight of the respondents of the cell who
\* SELECTED item b; valid_overlap[.., b] = ... who are NOT MISSING on item b.
OvDim == ND
OvCell(idx, b, valid) ==
  SumResp(LAMBDA k : IF Consistent(k.p, CountAxes, idx)
                        /\ (IF valid THEN k.p[VarOf(OvDim)][b] # MIS ELSE k.p[VarOf(OvDim)][b] = SEL)
                     THEN (IF Weighted THEN k.w ELSE 1) ELSE 0)
FlatOv(valid) ==
  FlattenSeq([t \in 1..Len(IdxCount) |->
                [b \in 1..Dims[OvDim].n |-> RSt(OvCell(IdxCount[t], b, valid), WS)]])

\* the response header: rows considered, rows that fall in no valid cell, and -- for a
\* numeric measure -- rows without a value (the measures' n_missing)
InSomeValidCell(k) == \E t \in 1..Len(IdxCount) :
                        ValidIdx(CountAxes, IdxCount[t]) /\ Consistent(k.p, CountAxes, IdxCount[t])
Header ==
  [ n        |-> NResp,
    missing  |-> SumResp(LAMBDA k : IF InSomeValidCell(k) THEN 0 ELSE 1),
    ymissing |-> IF HasNumArr
                 THEN SumResp(LAMBDA k : IF \A i \in 1..Dims[NumArrDim].n :
                                               k.p[VarOf(NumArrDim)][i] = NA THEN 1 ELSE 0)
                 ELSE IF HasY THEN SumResp(LAMBDA k : IF k.p["y"][1] = NA THEN 1 ELSE 0)
                 ELSE 0 ]

FlatY ==
  [ vcu    |-> FlatI(CellNV, IdxAll),
    vcw    |-> FlatI(LAMBDA i : RSt(CellWV(i), "w"), IdxAll),
    mean   |-> FlatI(CellMean, IdxAll),
    sum    |-> FlatI(CellSum, IdxAll),
    stddev |-> FlatI(CellStd, IdxAll),
    median |-> FlatI(CellMed, IdxAll) ]
=============================================================================
