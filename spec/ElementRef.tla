------------------------------ MODULE ElementRef -----------------------------
(***************************************************************************)
(* C19: references to the items of an array-type dimension.                *)
(*                                                                         *)
(* An item k has an alias (string), a sub-variable id (string) and an      *)
(* element id (integer).  A reference is a value [t, s, i]: t = "s" a      *)
(* string s, t = "i" an integer i.  Resolution is the documented ordered   *)
(* cascade; the state of this module is one ID SCHEME (chosen              *)
(* adversarially from small alphabets, so that the rules can capture each  *)
(* other's strings); for every scheme the module emits, for every          *)
(* candidate reference, the item it denotes (0 = none).                    *)
(*                                                                         *)
(* An MR dimension whose variable view carries insertions has some of its  *)
(* items INSERTED by the server (`ins`, the items with an anchor); for     *)
(* such a dimension a numeric string that spells the element id of a       *)
(* NON-inserted item denotes that item before the sub-variable ids are     *)
(* consulted (rule 2b: the server numbers sub-variable ids of base items   *)
(* 1, 2, 3 while element ids count the inserted items too).                *)
(*                                                                         *)
(* The property: in every transform slot, a reference that denotes item k  *)
(* gives the output the alias of item k gives; a reference that denotes    *)
(* nothing is ignored.                                                     *)
(***************************************************************************)
EXTENDS Integers, Sequences, FiniteSets, TLC, Json, Randomization

CONSTANTS
  N,            \* number of items
  AliasPool,    \* strings aliases are drawn from
  SvidPool,     \* strings sub-variable ids are drawn from
  EidPool,      \* integers element ids are drawn from
  Numeric,      \* function: numeric string -> its integer value (domain = the numeric strings)
  ExtraStrs,    \* further candidate strings (stale, malformed)
  ExtraInts,    \* further candidate integers
  Canon,        \* function: element id (integer) -> its decimal spelling
  SimMode,      \* TRUE: only a random sample of schemes (Sample per identifier kind)
  Sample,
  Pinned        \* schemes [alias, svid, eid, ins] that every sample contains

VARIABLES alias, svid, eid,
          ins       \* the server-inserted items of an MR dimension ({} = no view insertions)
vars == <<alias, svid, eid, ins>>

Items == 1..N
Inj(f) == \A a, b \in Items : a # b => f[a] # f[b]

Schemes(pool) == {f \in [Items -> pool] : Inj(f)}
\* at least one item is a base item (an inserted item is computed from base items)
InsSets == (SUBSET Items) \ {Items}

Init ==
  IF SimMode
  THEN \/ /\ alias \in RandomSubset(Sample, Schemes(AliasPool))
          /\ svid \in RandomSubset(Sample, Schemes(SvidPool))
          /\ eid \in RandomSubset(Sample, Schemes(EidPool))
          /\ ins \in RandomSubset(2, InsSets \ {{}}) \cup {{}}
       \/ \E s \in Pinned : alias = s.alias /\ svid = s.svid /\ eid = s.eid /\ ins = s.ins
  ELSE /\ alias \in Schemes(AliasPool)
       /\ svid \in Schemes(SvidPool)
       /\ eid \in Schemes(EidPool)
       /\ ins \in InsSets
Next == UNCHANGED vars
Spec == Init /\ [][Next]_vars

StrV(s) == [t |-> "s", s |-> s, i |-> 0]
IntV(i) == [t |-> "i", s |-> "", i |-> i]
NullV   == [t |-> "n", s |-> "", i |-> 0]      \* a JSON null: denotes nothing

HasInt(v) == v.t = "i" \/ v.s \in DOMAIN Numeric
AsInt(v)  == IF v.t = "i" THEN v.i ELSE Numeric[v.s]

ItemWith(f, x) == CHOOSE k \in Items : f[k] = x

\* the ordered cascade (dimension.py::_ElementIdShim.translate_element_id), for a
\* dimension whose server-inserted items are I
BaseEidStr(v, I) == v.t = "s" /\ I # {} /\ \E k \in Items \ I : Canon[eid[k]] = v.s
ResolveWith(v, I) ==
  IF v.t = "s" /\ \E k \in Items : alias[k] = v.s THEN ItemWith(alias, v.s)          \* 1 alias
  ELSE IF v.t = "i" /\ \E k \in Items : eid[k] = v.i THEN ItemWith(eid, v.i)         \* 2 element id
  ELSE IF BaseEidStr(v, I) THEN CHOOSE k \in Items \ I : Canon[eid[k]] = v.s         \* 2b spelled element id of a base item
  ELSE IF v.t = "s" /\ \E k \in Items : svid[k] = v.s THEN ItemWith(svid, v.s)       \* 3 sub-variable id
  ELSE IF ~HasInt(v) THEN 0
  ELSE IF \E k \in Items : eid[k] = AsInt(v) THEN ItemWith(eid, AsInt(v))            \* 4 parsed element id
  ELSE IF AsInt(v) >= 0 /\ AsInt(v) < N THEN AsInt(v) + 1                            \* 5 position
  ELSE 0                                                                             \* 6 nothing
Resolve(v) == ResolveWith(v, ins)

\* Element transforms (hide / rename) may say what their keys are: with key = "alias" a key
\* denotes the item with that alias and nothing else, with key = "subvar_id" the item with
\* that sub-variable id and nothing else (no cascade).
ResolveKeyed(v, key) ==
  IF v.t # "s" THEN 0
  ELSE IF key = "alias" THEN (IF \E k \in Items : alias[k] = v.s THEN ItemWith(alias, v.s) ELSE 0)
  ELSE IF \E k \in Items : svid[k] = v.s THEN ItemWith(svid, v.s) ELSE 0

\* which rule decided (for the feature histogram); 7 = rule 2b
RuleWith(v, I) ==
  IF v.t = "s" /\ \E k \in Items : alias[k] = v.s THEN 1
  ELSE IF v.t = "i" /\ \E k \in Items : eid[k] = v.i THEN 2
  ELSE IF BaseEidStr(v, I) THEN 7
  ELSE IF v.t = "s" /\ \E k \in Items : svid[k] = v.s THEN 3
  ELSE IF ~HasInt(v) THEN 6
  ELSE IF \E k \in Items : eid[k] = AsInt(v) THEN 4
  ELSE IF AsInt(v) >= 0 /\ AsInt(v) < N THEN 5 ELSE 6
Rule(v) == RuleWith(v, ins)

Candidates ==
  {StrV(alias[k]) : k \in Items} \cup {StrV(svid[k]) : k \in Items}
  \cup {IntV(eid[k]) : k \in Items} \cup {IntV(p) : p \in 0..(N - 1)}
  \cup {StrV(s) : s \in DOMAIN Numeric} \cup {StrV(s) : s \in ExtraStrs}
  \cup {IntV(i) : i \in ExtraInts} \cup {NullV}

\* spec-internal theorems: every item is reachable by its alias and by its integer
\* element id; resolving the alias of what a reference denotes is a fixed point (the
\* in-place rewrite is idempotent: C18)
ThmAliasAndEidResolve ==
  \A k \in Items : Resolve(StrV(alias[k])) = k /\ Resolve(IntV(eid[k])) = k
ThmRewriteIdempotent ==
  \A v \in Candidates : Resolve(v) # 0 => Resolve(StrV(alias[Resolve(v)])) = Resolve(v)
\* rule 2b only ever re-routes a numeric string, and only to the item that the same
\* number denotes as an integer: with view insertions "2" and 2 agree unless "2" is an alias
ThmSpelledEidAgrees ==
  \A v \in Candidates :
    ResolveWith(v, ins) # ResolveWith(v, {}) =>
      /\ v.t = "s" /\ v.s \in DOMAIN Numeric
      /\ ResolveWith(v, ins) = ResolveWith(IntV(Numeric[v.s]), ins)


(***************************************************************************)
(* Datetime dimensions: an element may be referenced by its position id    *)
(* (int, or the same number as a string) or by its value.  Element k has   *)
(* id k and value token "d<k>" (the harness maps the token to the ISO       *)
(* string it put in the response).                                         *)
(***************************************************************************)
DtValue(k) == CASE k = 1 -> "d1" [] k = 2 -> "d2" [] k = 3 -> "d3" [] OTHER -> "d?"
DtResolve(v) ==
  IF HasInt(v) /\ AsInt(v) \in Items THEN AsInt(v)
  ELSE IF v.t = "s" /\ \E k \in Items : DtValue(k) = v.s THEN CHOOSE k \in Items : DtValue(k) = v.s
  ELSE 0
DtCandidates ==
  {IntV(k) : k \in Items} \cup {StrV(DtValue(k)) : k \in Items}
  \cup {StrV(s) : s \in DOMAIN Numeric} \cup {StrV("zz"), IntV(7), IntV(0), NullV}
ThmDtIdAndValueAgree ==
  \A k \in Items : DtResolve(IntV(k)) = k /\ DtResolve(StrV(DtValue(k))) = k

EmitInv ==
  PrintT(ToJson([ alias |-> alias, svid |-> svid, eid |-> eid, ins |-> ins,
                  refs |-> {[v |-> v, item |-> Resolve(v), rule |-> Rule(v),
                             plain |-> ResolveWith(v, {}), plainrule |-> RuleWith(v, {}),
                             kalias |-> ResolveKeyed(v, "alias"),
                             ksvid |-> ResolveKeyed(v, "subvar_id")]
                            : v \in Candidates},
                  dtrefs |-> {[v |-> v, item |-> DtResolve(v)] : v \in DtCandidates} ]))
=============================================================================
