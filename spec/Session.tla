------------------------------- MODULE Session -------------------------------
(***************************************************************************)
(* C18: the access-history state machine, shaped like the implementation.  *)
(*                                                                         *)
(* The caller owns response dicts r \in Resp and transforms dicts          *)
(* x \in Xf (OBJECTS: identity matters, several cubes -- and every         *)
(* partition of a 3-D cube -- alias one object).  `Construct(r, x)`        *)
(* creates a cube over those objects and changes nothing else.  The first  *)
(* `Read` of anything on partition k of cube c builds that partition's     *)
(* dimensions, and THAT is when the library edits the caller's dicts in    *)
(* place (dimension.py::_ElementIdShim): element references in the         *)
(* transforms are rewritten to the aliases of response r, and alias keys   *)
(* are added to the response.  Every read is cached per (cube, partition,  *)
(* property).                                                              *)
(*                                                                         *)
(* Abstract state of a transforms object: 0 = as the caller wrote it,      *)
(* r = rewritten to the aliases of response r.  Rewriting is idempotent    *)
(* under the same response (spellings resolve to the same items, see       *)
(* ElementRef.tla); under a DIFFERENT response the stored aliases mean     *)
(* nothing: references are silently lost.  That is the design-level        *)
(* counterexample `SharedAcrossResponses`; the main configuration fences   *)
(* it off (named constraint), a second configuration regenerates it.       *)
(*                                                                         *)
(* `hist` records the behaviour; every state is emitted and replayed on    *)
(* live objects, each read being compared with a fresh evaluation on       *)
(* pristine copies and the caller's dicts with `xfstate` / `shimmed`.      *)
(***************************************************************************)
EXTENDS Integers, Sequences, FiniteSets, TLC, Json

CONSTANTS
  NResp,      \* number of response objects the caller holds
  NXf,        \* number of transforms objects
  MaxCubes,   \* bound on constructed cubes
  NParts,     \* partitions per cube (a 3-D response)
  Props,      \* representative property names
  MaxSteps,   \* bound on the length of a behaviour
  Fenced      \* TRUE: a transforms object is only ever used with one response

VARIABLES cubes, built, cache, xfstate, shimmed, hist, lost
vars == <<cubes, built, cache, xfstate, shimmed, hist, lost>>

Resp == 1..NResp
Xf == 1..NXf

Init ==
  /\ cubes = << >>
  /\ built = {} /\ cache = {}
  /\ xfstate = [x \in Xf |-> 0]
  /\ shimmed = [r \in Resp |-> FALSE]
  /\ hist = << >>
  /\ lost = FALSE

UsedWith(x) == {cubes[c].r : c \in {d \in 1..Len(cubes) : cubes[d].x = x}}

Construct(r, x) ==
  /\ Len(cubes) < MaxCubes /\ Len(hist) < MaxSteps
  /\ (Fenced => UsedWith(x) \subseteq {r})
  /\ cubes' = Append(cubes, [r |-> r, x |-> x])
  /\ hist' = Append(hist, [op |-> "construct", r |-> r, x |-> x, c |-> 0, k |-> 0,
                           p |-> "", hit |-> FALSE])
  /\ UNCHANGED <<built, cache, xfstate, shimmed, lost>>

\* building the dimensions of partition k of cube c: the in-place rewrite
Build(c) ==
  LET r == cubes[c].r  x == cubes[c].x IN
  /\ shimmed' = [shimmed EXCEPT ![r] = TRUE]
  /\ xfstate' = [xfstate EXCEPT ![x] = IF @ = 0 THEN r ELSE @]
  /\ lost' = (lost \/ (xfstate[x] # 0 /\ xfstate[x] # r))

Read(c, k, p) ==
  /\ c \in 1..Len(cubes) /\ Len(hist) < MaxSteps
  /\ IF <<c, k>> \in built
     THEN UNCHANGED <<built, xfstate, shimmed, lost>>
     ELSE built' = built \cup {<<c, k>>} /\ Build(c)
  /\ cache' = cache \cup {<<c, k, p>>}
  /\ hist' = Append(hist, [op |-> "read", r |-> cubes[c].r, x |-> cubes[c].x, c |-> c,
                           k |-> k, p |-> p, hit |-> <<c, k, p>> \in cache])
  /\ UNCHANGED cubes

Next ==
  \/ \E r \in Resp, x \in Xf : Construct(r, x)
  \/ \E c \in 1..MaxCubes, k \in 1..NParts, p \in Props : Read(c, k, p)

Spec == Init /\ [][Next]_vars

(***************************************************************************)
(* Properties                                                              *)
(***************************************************************************)
\* design-level purity: no read ever evaluates transforms that were rewritten for
\* another response (it would silently lose its references)
NoLostReference == ~lost

\* the cache never forgets, built partitions stay built, a rewritten dict is never
\* rewritten again (idempotence), a shimmed response stays shimmed
Monotone ==
  [][/\ cache \subseteq cache' /\ built \subseteq built'
     /\ \A x \in Xf : xfstate[x] # 0 => xfstate'[x] = xfstate[x]
     /\ \A r \in Resp : shimmed[r] => shimmed'[r]]_vars

\* a read is a cache hit exactly when the same read happened before
HitIffSeen ==
  \A i \in 1..Len(hist) :
    hist[i].op = "read" =>
      (hist[i].hit <=> \E j \in 1..(i - 1) :
         hist[j].op = "read" /\ hist[j].c = hist[i].c /\ hist[j].k = hist[i].k
         /\ hist[j].p = hist[i].p)

EmitInv ==
  PrintT(ToJson([hist |-> hist, xfstate |-> xfstate, shimmed |-> shimmed, lost |-> lost,
                 ncubes |-> Len(cubes)]))
=============================================================================
