-------------------------------- MODULE Slice -------------------------------
(***************************************************************************)
(* Meaning of the first-order outputs of a 2-D partition (_Slice) and of a *)
(* 1-D partition (_Strand): counts, bases, margins, proportions.           *)
(* Every operator takes the table element tk and the displayed row /       *)
(* column element sequences RE / CE, so the same text serves untransformed *)
(* partitions, partitions with subtotals, and re-ordered ones.             *)
(*                                                                         *)
(* Output values are tagged records [k, nd, v]:                            *)
(*   k = "num": leaves of v are rationals <<n, d>>; nd = nesting depth     *)
(*   k = "exact": v compared for equality                                  *)
(***************************************************************************)
EXTENDS Tabulate

Num0(x)  == [k |-> "num", nd |-> 0, v |-> x]
Num1(s)  == [k |-> "num", nd |-> 1, v |-> s]
Num2(m)  == [k |-> "num", nd |-> 2, v |-> m]
Exact(x) == [k |-> "exact", nd |-> 0, v |-> x]

Vec(n, f(_))       == [i \in 1..n |-> f(i)]
Mat(nr, nc, f(_,_)) == [i \in 1..nr |-> [j \in 1..nc |-> f(i, j)]]

\* NaN rule for differences: a base or proportion in a difference's own
\* direction is undefined
RowDiffNaN(re, x) == IF IsDiff(re) THEN NaN ELSE x
ColDiffNaN(ce, x) == IF IsDiff(ce) THEN NaN ELSE x

(***************************************************************************)
(* 2-D partition                                                           *)
(***************************************************************************)
RowsAreItems == IsItemLike(DimR)
ColsAreItems == IsItemLike(DimC)

\* A difference's count is undefined in a response that carries valid counts
CountR(tk, re, ce, st) ==
  IF (IsDiff(re) \/ IsDiff(ce)) /\ HasY /\ ValidCounts THEN NaN
  ELSE IF IsDiff(re) /\ IsDiff(ce) THEN NaN
  ELSE RSt(Count(tk, re, ce, st), st)

CountM(tk, RE, CE, st) ==
  Mat(Len(RE), Len(CE), LAMBDA i, j : CountR(tk, RE[i], CE[j], st))

\* per-cell bases; own-direction base of a difference is NaN
RowBaseM(tk, RE, CE, st) ==
  Mat(Len(RE), Len(CE), LAMBDA i, j :
      RowDiffNaN(RE[i], RSt(RowBase(tk, RE[i], CE[j], st), st)))
ColBaseM(tk, RE, CE, st) ==
  Mat(Len(RE), Len(CE), LAMBDA i, j :
      ColDiffNaN(CE[j], RSt(ColBase(tk, RE[i], CE[j], st), st)))
TableBaseM(tk, RE, CE, st) ==
  Mat(Len(RE), Len(CE), LAMBDA i, j : RSt(TableBase(tk, RE[i], CE[j], st), st))

\* a base element of the opposing dimension, used where a base does not
\* depend on the opposing element (categorical opposing dimension)
AnyEl(d) == BaseEls(d)[1]
HasValid(d) == ValidPos(d) # {}

\* margins: the per-cell base collapsed along a categorical opposing
\* dimension; stay 2-D across an array-like opposing dimension
RowsMargin(tk, RE, CE, st) ==
  IF ColsAreItems THEN Num2(RowBaseM(tk, RE, CE, st))
  ELSE Num1(Vec(Len(RE), LAMBDA i :
         RowDiffNaN(RE[i], RSt(RowBase(tk, RE[i], AnyEl(DimC), st), st))))
ColsMargin(tk, RE, CE, st) ==
  IF RowsAreItems THEN Num2(ColBaseM(tk, RE, CE, st))
  ELSE Num1(Vec(Len(CE), LAMBDA j :
         ColDiffNaN(CE[j], RSt(ColBase(tk, AnyEl(DimR), CE[j], st), st))))

TableBaseOut(tk, RE, CE, st) ==
  IF RowsAreItems /\ ColsAreItems THEN Num2(TableBaseM(tk, RE, CE, st))
  ELSE IF ColsAreItems THEN
       Num1(Vec(Len(CE), LAMBDA j : RSt(TableBase(tk, AnyEl(DimR), CE[j], st), st)))
  ELSE IF RowsAreItems THEN
       Num1(Vec(Len(RE), LAMBDA i : RSt(TableBase(tk, RE[i], AnyEl(DimC), st), st)))
  ELSE Num0(RSt(TableBase(tk, AnyEl(DimR), AnyEl(DimC), st), st))

\* [min, max] of the table base over the base (unpruned, non-inserted) cells
TableBaseRange(tk, st) ==
  LET vals == {TableBase(tk, BaseEls(DimR)[i], BaseEls(DimC)[j], st) :
                 i \in 1..Len(BaseEls(DimR)), j \in 1..Len(BaseEls(DimC))}
  IN  Num1(<<RSt(Min(vals), st), RSt(Max(vals), st)>>)

\* --- proportions ---------------------------------------------------------
IsDate(d) == Dims[d].date
\* a difference "with several terms on either side"
MultiTerm(e) == IsDiff(e) /\ (Cardinality(e.pos) > 1 \/ Cardinality(e.neg) > 1)
OneMinusOne(e) == Cardinality(e.pos) = 1 /\ Cardinality(e.neg) = 1
OnlyPos(d, e) == BaseEl(d, CHOOSE x \in e.pos : TRUE)
OnlyNeg(d, e) == BaseEl(d, CHOOSE x \in e.neg : TRUE)

PlainRowProp(tk, re, ce) == Div(RSt(Count(tk, re, ce, WS), WS), RSt(RowBase(tk, re, ce, WS), WS))
PlainColProp(tk, re, ce) == Div(RSt(Count(tk, re, ce, WS), WS), RSt(ColBase(tk, re, ce, WS), WS))

\* row proportion.  Own-direction difference (row difference): undefined, except
\* that on a categorical-date rows dimension a one-minus-one difference is the
\* difference of the two rows' percentages.  A several-term difference on a
\* categorical-date dimension is undefined in every proportion.
RowProp(tk, re, ce) ==
  IF IsDiff(re) /\ IsDiff(ce) THEN NaN
  ELSE IF IsDiff(re) THEN
       (IF IsDate(DimR) /\ ~IsIns(ce) /\ OneMinusOne(re)
        THEN Sub(PlainRowProp(tk, OnlyPos(DimR, re), ce), PlainRowProp(tk, OnlyNeg(DimR, re), ce))
        ELSE NaN)
  ELSE IF IsDiff(ce) /\ IsDate(DimC) /\ ~IsIns(re) /\ ~OneMinusOne(ce) THEN NaN
  ELSE IF (IsDiff(re) \/ IsDiff(ce)) /\ HasY /\ ValidCounts THEN NaN
  ELSE PlainRowProp(tk, re, ce)

ColProp(tk, re, ce) ==
  IF IsDiff(re) /\ IsDiff(ce) THEN NaN
  ELSE IF IsDiff(ce) THEN
       (IF IsDate(DimC) /\ ~IsIns(re) /\ OneMinusOne(ce)
        THEN Sub(PlainColProp(tk, re, OnlyPos(DimC, ce)), PlainColProp(tk, re, OnlyNeg(DimC, ce)))
        ELSE NaN)
  ELSE IF IsDiff(re) /\ IsDate(DimR) /\ ~IsIns(ce) /\ ~OneMinusOne(re) THEN NaN
  ELSE IF (IsDiff(re) \/ IsDiff(ce)) /\ HasY /\ ValidCounts THEN NaN
  ELSE PlainColProp(tk, re, ce)

TableProp(tk, re, ce) ==
  Div(CountR(tk, re, ce, WS), RSt(TableBase(tk, re, ce, WS), WS))

RowPropM(tk, RE, CE)   == Mat(Len(RE), Len(CE), LAMBDA i, j : RowProp(tk, RE[i], CE[j]))
ColPropM(tk, RE, CE)   == Mat(Len(RE), Len(CE), LAMBDA i, j : ColProp(tk, RE[i], CE[j]))
TablePropM(tk, RE, CE) == Mat(Len(RE), Len(CE), LAMBDA i, j : TableProp(tk, RE[i], CE[j]))

Times100(m) == [i \in DOMAIN m |-> [j \in DOMAIN m[i] |-> Mul(R(100), m[i][j])]]

\* margin proportions: margin over table base
RowsMarginProp(tk, RE, CE) ==
  IF ColsAreItems
  THEN Num2(Mat(Len(RE), Len(CE), LAMBDA i, j :
         Div(RSt(RowBase(tk, RE[i], CE[j], WS), WS), RSt(TableBase(tk, RE[i], CE[j], WS), WS))))
  ELSE Num1(Vec(Len(RE), LAMBDA i :
         IF IsDiff(RE[i]) /\ HasY /\ ValidCounts THEN NaN
         ELSE Div(RSt(RowBase(tk, RE[i], AnyEl(DimC), WS), WS),
                  RSt(TableBase(tk, RE[i], AnyEl(DimC), WS), WS))))
ColsMarginProp(tk, RE, CE) ==
  IF RowsAreItems
  THEN Num2(Mat(Len(RE), Len(CE), LAMBDA i, j :
         Div(RSt(ColBase(tk, RE[i], CE[j], WS), WS), RSt(TableBase(tk, RE[i], CE[j], WS), WS))))
  ELSE Num1(Vec(Len(CE), LAMBDA j :
         IF IsDiff(CE[j]) /\ HasY /\ ValidCounts THEN NaN
         ELSE Div(RSt(ColBase(tk, AnyEl(DimR), CE[j], WS), WS),
                  RSt(TableBase(tk, AnyEl(DimR), CE[j], WS), WS))))

\* minimum-base masks: TRUE exactly where the unweighted base is below the threshold
\* (an undefined base -- own direction of a difference -- is never "below")
MaskOf(m, thr) ==
  Exact([i \in DOMAIN m |-> [j \in DOMAIN m[i] |->
           IsFinite(m[i][j]) /\ Less(m[i][j], R(thr))]])
TableMask(tk, RE, CE, thr) == MaskOf(TableBaseM(tk, RE, CE, "n"), thr)
RowMask(tk, RE, CE, thr)   == MaskOf(RowBaseM(tk, RE, CE, "n"), thr)
ColMask(tk, RE, CE, thr)   == MaskOf(ColBaseM(tk, RE, CE, "n"), thr)

(***************************************************************************)
(* Numeric measures (mean, sum, stddev, median): the value the response    *)
(* carries for the cell = the statistic of y over the respondents of the   *)
(* cell that have a value.  NaN for every inserted subtotal.               *)
(***************************************************************************)
YWt(co, f(_, _)) ==
  SumResp(LAMBDA k : IF YAt(k.p, co) # NA
                     THEN IndProd(k.p, co, Md("sel", "sel"), 1) * f(k, YAt(k.p, co))
                     ELSE 0)
MeanAt(co) == Div(R(YWt(co, LAMBDA k, y : k.w * y)), R(YWt(co, LAMBDA k, y : k.w)))
SumAt(co)  == IF YWt(co, LAMBDA k, y : 1) = 0 /\ SumNaN THEN NaN
              ELSE RW(YWt(co, LAMBDA k, y : k.w * y))
StdAt(co)  == Sub(Div(R(YWt(co, LAMBDA k, y : k.w * y * y)), R(YWt(co, LAMBDA k, y : k.w))),
                  Sq(MeanAt(co)))
MedAt(co)  == Add(Mul(R(2), MeanAt(co)), One)

YStat(name, co) ==
  CASE name = "mean" -> MeanAt(co) [] name = "sum" -> SumAt(co)
    [] name = "stddev" -> StdAt(co) [] name = "median" -> MedAt(co)

\* base elements an element is made of (itself for a base element)
Parts(d, e) == IF e.item # 0 THEN {e} ELSE {BaseEl(d, p) : p \in e.pos}

\* Sums add up over the addends of a subtotal (an unavailable addend makes the
\* subtotal unavailable).  No property says what the sum of a difference is (the
\* library reports NaN in a slice and the signed sum in a strand): left open.
SumOver(tk, re, ce) ==
  IF IsDiff(re) \/ IsDiff(ce) THEN AnyVal
  ELSE FoldSet(LAMBDA c, acc : Add(SumAt(Co(tk, c[1], c[2])), acc), Zero,
               Parts(DimR, re) \X (IF ND >= 2 /\ DimC # 0 THEN Parts(DimC, ce) ELSE {ce}))

YStatM(name, tk, RE, CE) ==
  Mat(Len(RE), Len(CE), LAMBDA i, j :
      IF name = "sum" THEN SumOver(tk, RE[i], CE[j])
      ELSE IF IsIns(RE[i]) \/ IsIns(CE[j]) THEN NaN
      ELSE YStat(name, Co(tk, RE[i], CE[j])))

(***************************************************************************)
(* 1-D partition: rows only.  CE is ignored (pass << >>).                  *)
(***************************************************************************)
SCount(tk, re, st) == Count(tk, re, NoEl, st)
SBaseV(tk, RE, st)  == Vec(Len(RE), LAMBDA i : RSt(TableBase(tk, RE[i], NoEl, st), st))
\* strand counts and proportions; a several-term difference on a categorical-date
\* dimension has no proportion
SCountR(tk, re, st) ==
  IF IsDiff(re) /\ HasY /\ ValidCounts THEN NaN ELSE RSt(SCount(tk, re, st), st)
SProp(tk, re) ==
  IF IsDate(DimR) /\ IsDiff(re) /\ re.pos # {} /\ MultiTerm(re) THEN NaN
  ELSE Div(SCountR(tk, re, WS), RSt(TableBase(tk, re, NoEl, WS), WS))
SPropV(tk, RE) == Vec(Len(RE), LAMBDA i : SProp(tk, RE[i]))
SCountV(tk, RE, st) == Vec(Len(RE), LAMBDA i : SCountR(tk, RE[i], st))
SYStatV(name, tk, RE) ==
  Vec(Len(RE), LAMBDA i :
      IF name = "sum" THEN SumOver(tk, RE[i], NoEl)
      ELSE IF IsIns(RE[i]) THEN NaN ELSE YStat(name, Co(tk, RE[i], NoEl)))
SMask(tk, RE, thr) ==
  Exact([i \in 1..Len(RE) |-> TableBase(tk, RE[i], NoEl, "n") < thr])
SBaseRange(tk, st) ==
  LET vals == {TableBase(tk, BaseEls(DimR)[i], NoEl, st) : i \in 1..Len(BaseEls(DimR))}
  IN  Num1(<<RSt(Min(vals), st), RSt(Max(vals), st)>>)
=============================================================================
