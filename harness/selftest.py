"""./check --selftest : demonstrate that the specification is bound to the code.

(a) a recorded relation trace with one corrupted value is rejected by TraceRelation.tla;
(b) a recorded cache event stream with one compute event removed (= the hook missing at
    that point) or duplicated is rejected by TraceCache.tla;
(c) a spec expectation with one corrupted cell is reported by the replayer.
Writes evidence/selftest.json; exit 0 iff all corruptions are detected and the uncorrupted
originals are accepted."""
import copy
import json
import os
import sys
import time

VERIF = os.path.dirname(os.path.dirname(os.path.abspath(__file__)))


def main():
    import configs
    import envelope
    import relation
    import replay_basic
    import runner
    import session
    from scenarios import cat, mr, scenario
    from tlcrun import TLCRun
    t0 = time.time()
    out = {"checks": []}
    scn = scenario("st_cat_x_cat", [cat("A", 3, miss=[2]), cat("B", 3, miss=[3])])
    ri, ci = 0, 1
    scn["configs"] = [configs.config(configs.dimcfg(hide=[1], order={"type": "explicit", "ids": [3, 1]}),
                                     configs.dimcfg(order={"type": "explicit", "ids": [2, 1]}))]
    job = runner.make_job(dict(scn, max_resp=3), "c03", ("replay_basic", "replay"), mode="sim",
                          seed=1, sim_num=5, sim_depth=5, sim_max_resp=4, prop_id="C03")
    run = TLCRun("selftest", job["root"], job["defs"], job["cfg"], mode="sim", sim_num=5,
                 sim_depth=5, seed=1)
    rec = None
    try:
        for r in run:
            if r["nresp"] >= 3:
                rec = r
    finally:
        run.close()
    if rec is None:
        print("MACHINERY-ERROR: no record", file=sys.stderr)
        return 2
    # (c) replayer sensitivity
    ok = replay_basic.replay(job, rec)
    bad_rec = copy.deepcopy(rec)
    cell = bad_rec["parts"][0]["row_proportions"]["v"][0][0]
    bad_rec["parts"][0]["row_proportions"]["v"][0][0] = [cell[0] + 1, max(cell[1], 1) + 1]
    bad = replay_basic.replay(job, bad_rec)
    out["checks"].append({"what": "replay: original expectation accepted %s" %
                                  [m.what for m in ok["mismatches"]][:1],
                          "ok": not ok["mismatches"]})
    out["checks"].append({"what": "replay: one corrupted expected cell is reported",
                          "ok": bool(bad["mismatches"])})
    # (a) relation trace
    from cr.cube.cube import Cube
    cfg = scn["configs"][0]
    base_cfg = relation.strip_display(cfg)
    px = Cube(envelope.build_response(scn, rec, cfg), transforms=configs.transforms_dict(cfg)).partitions[0]
    pb = Cube(envelope.build_response(scn, rec, base_cfg),
              transforms=configs.transforms_dict(base_cfg)).partitions[0]
    tr, _ = relation.record_pair(1, pb, px, True)
    tr2 = copy.deepcopy(tr)
    tr2["id"] = 2
    for e in tr2["ev"]:
        if e["op"] == "mat" and e["prop"] == "counts":
            e["xf"][0][0] = 999999
    tr3 = copy.deepcopy(tr)
    tr3["id"] = 3
    tr3["cx"] = list(reversed(tr3["cx"]))       # a wrong reported order
    acc, rej, err = relation.validate([tr, tr2, tr3])
    out["checks"].append({"what": "TraceRelation: recorded pair accepted", "ok": 1 in acc and not err})
    out["checks"].append({"what": "TraceRelation: one corrupted value rejected (at %s)" % (rej.get(2),),
                          "ok": 2 in rej})
    out["checks"].append({"what": "TraceRelation: corrupted reported order rejected (at %s)" % (rej.get(3),),
                          "ok": 3 in rej})
    # (b) cache stream
    rec_hook = session.Recorder()
    installed = session.install(rec_hook)
    try:
        p = Cube(envelope.build_response(scn, rec, cfg), transforms=configs.transforms_dict(cfg)).partitions[0]
        p.counts
        p.row_proportions
        p.counts
    finally:
        session.install(None)
    evs = rec_hook.events
    per_obj = {}
    for e in evs:
        per_obj.setdefault(e["o"], []).append(e)
    stream = max(per_obj.values(), key=len) if per_obj else []
    t_ok = {"id": 1, "ev": stream, "pre": False}
    first_compute = next((i for i, e in enumerate(stream) if e["k"] == "compute"
                          and any(f["k"] == "hit" and f["p"] == e["p"] for f in stream[i + 1:])), None)
    t_missing = {"id": 2, "pre": False,
                 "ev": [e for i, e in enumerate(stream) if i != first_compute]}
    t_dup = {"id": 3, "pre": False,
             "ev": stream[:(first_compute or 0) + 1] + stream[(first_compute or 0):]}
    acc, rej, err = relation.validate([t_ok, t_missing, t_dup], spec="TraceCache")
    out["checks"].append({"what": "hook installed and events recorded (%d)" % len(evs),
                          "ok": bool(installed) and len(evs) > 10})
    out["checks"].append({"what": "TraceCache: recorded stream accepted", "ok": 1 in acc and not err})
    out["checks"].append({"what": "TraceCache: stream with one compute event removed (missing hook) "
                                  "rejected (at %s)" % (rej.get(2),),
                          "ok": first_compute is not None and 2 in rej})
    out["checks"].append({"what": "TraceCache: duplicated compute rejected (at %s)" % (rej.get(3),),
                          "ok": first_compute is not None and 3 in rej})
    out["wall_s"] = round(time.time() - t0, 1)
    out["all_ok"] = all(c["ok"] for c in out["checks"])
    os.makedirs(os.path.join(VERIF, "evidence"), exist_ok=True)
    with open(os.path.join(VERIF, "evidence", "selftest.json"), "w") as f:
        json.dump(out, f, indent=1)
    for c in out["checks"]:
        print("%s  %s" % ("ok  " if c["ok"] else "FAIL", c["what"]))
    return 0 if out["all_ok"] else 1
