"""C06, multi-cube part: CubeSet over several responses.

Each member response is a spec-emitted state of its own scenario (the library never relates
the data of the member cubes); what is checked is that partition sets line up the k-th
partition of every cube, that a categorical array as leading cube is cut into one strand per
sub-variable equal to that sub-variable's univariate analysis (= row k of the spec's 2-D
meaning of the array), and that cubes without a rows dimension are padded with a one-row
dimension without changing any value."""
import copy
import sys
import time

import numpy as np

import configs
import envelope
import runner
from project import compare, to_py
from runner import Mismatch
from tlcrun import TLCRun


def records_for(scn, family, seed, n=3, min_resp=3):
    job = runner.make_job(dict(scn, max_resp=4), family, ("replay_basic", "replay"), mode="sim",
                          seed=seed, sim_num=25, sim_depth=6, sim_max_resp=5, prop_id="C06")
    run = TLCRun(scn["name"] + ".c06mc", job["root"], job["defs"], job["cfg"], mode="sim",
                 sim_num=25, sim_depth=6, seed=seed)
    out = []
    stats = {"generated": 0}
    try:
        for rec in run:
            if rec["nresp"] >= min_resp:
                out.append(rec)
        stats["generated"] = run.generated
        err = run.error
    finally:
        run.close()
    out.sort(key=lambda r: -r["nresp"])
    return job["scn"], out[:n], stats, err


def _cmp(problems, what, obs, exp, tags):
    errs = compare(obs, exp)
    if errs:
        path, o, x = errs[0]
        problems.append((what + "[%s]: library %r, spec %r" % (",".join(map(str, path)), o, x),
                         tags))


def row_of(exp, k):
    """expectation of strand k = row k of a 2-D matrix expectation"""
    e = dict(exp)
    e["nd"] = 1
    e["v"] = exp["v"][k]
    return e


def run_multicube(tier, seed):
    """-> (problems [(text, tags)], evaluations, stats, error)"""
    from cr.cube.cube import CubeSet
    from scenarios import cat, mr, caitems, cacat, scenario
    problems = []
    evals = 0
    gen = 0
    nrec = 2 if tier == "quick" else 6

    def resp(scn, rec):
        return envelope.build_response(scn, rec, configs.DEFAULT)

    # ---- tabbook: summary strand + slices
    sA, rA, st, err = records_for(scenario("tb_cat", [cat("A", 4, miss=[2])]), "c06", seed, nrec)
    gen += st["generated"]
    if err:
        return problems, evals, gen, err
    sAB, rAB, st, err = records_for(scenario("tb_cat_x_cat", [cat("A", 4, miss=[2]), cat("B", 3, miss=[1])]),
                                    "c06", seed + 1, nrec)
    gen += st["generated"]
    if err:
        return problems, evals, gen, err
    sAM, rAM, st, err = records_for(scenario("tb_cat_x_mr", [cat("A", 4, miss=[2]), mr("C", 2)]),
                                    "c06", seed + 2, nrec)
    gen += st["generated"]
    if err:
        return problems, evals, gen, err
    for a, b, c in zip(rA, rAB, rAM):
        cs = CubeSet([resp(sA, a), resp(sAB, b), resp(sAM, c)], [{}, {}, {}], None, 0)
        psets = cs.partition_sets
        evals += 1
        if len(psets) != 1 or len(psets[0]) != 3:
            problems.append(("tabbook: partition_sets has shape %s, expected 1 set of 3" %
                             ([len(p) for p in psets],), {"case": "tabbook", "prop": "partition_sets"}))
            continue
        for flag, want in (("n_responses", a["hdr"]["n"]), ("missing_count", a["hdr"]["missing"]),
                           ("has_numeric_measures", False), ("has_weighted_counts", True),
                           ("is_ca_as_0th", False)):
            evals += 1
            got = getattr(cs, flag)
            if got != want:
                problems.append(("tabbook: CubeSet.%s is %r, the leading response says %r" %
                                 (flag, got, want), {"case": "tabbook", "prop": flag}))
        for part, rec, name in zip(psets[0], (a, b, c), ("strand", "slice1", "slice2")):
            for prop, e in rec["parts"][0].items():
                if prop.endswith("_pos") or prop.startswith("min_base"):
                    continue
                evals += 1
                try:
                    obs = getattr(part, prop)
                except Exception as ex:  # noqa
                    problems.append(("tabbook %s.%s raised %r" % (name, prop, ex),
                                     {"case": "tabbook", "prop": prop, "raises": True}))
                    continue
                _cmp(problems, "tabbook %s.%s" % (name, prop), obs, e,
                     {"case": "tabbook", "prop": prop})

    # ---- CA as 0th cube: strands per sub-variable, lined up with the slices of a 3-D cube
    sCA, rCA, st, err = records_for(scenario("ca0_casub_x_cacat", [caitems("A", 3), cacat("A", 3, miss=[2])]),
                                    "c06", seed + 3, nrec)
    gen += st["generated"]
    if err:
        return problems, evals, gen, err
    sCAB, rCAB, st, err = records_for(
        scenario("ca0_casub_x_cacat_x_cat", [caitems("A", 3), cacat("A", 3, miss=[2]), cat("B", 2)]),
        "c06", seed + 4, nrec)
    gen += st["generated"]
    if err:
        return problems, evals, gen, err
    strand_props = {"counts": "counts", "unweighted_counts": "unweighted_counts",
                    "table_proportions": "row_proportions",
                    "unweighted_bases": "row_unweighted_bases",
                    "weighted_bases": "row_weighted_bases"}
    for a, b in zip(rCA, rCAB):
        cs = CubeSet([resp(sCA, a), resp(sCAB, b)], [{}, {}], None, 0)
        evals += 1
        if not cs.is_ca_as_0th:
            problems.append(("CA-as-0th not recognised", {"case": "ca0", "prop": "is_ca_as_0th"}))
            continue
        psets = cs.partition_sets
        if len(psets) != 3 or any(len(p) != 2 for p in psets):
            problems.append(("CA-as-0th: partition_sets has shape %s, expected 3 sets of 2" %
                             ([len(p) for p in psets],), {"case": "ca0", "prop": "partition_sets"}))
            continue
        exp2d = a["parts"][0]
        for k, (strand, slice_) in enumerate(psets):
            for sprop, mprop in strand_props.items():
                evals += 1
                try:
                    obs = getattr(strand, sprop)
                except Exception as ex:  # noqa
                    problems.append(("CA-as-0th strand %d .%s raised %r" % (k, sprop, ex),
                                     {"case": "ca0", "prop": sprop, "raises": True}))
                    continue
                _cmp(problems, "CA-as-0th strand %d .%s" % (k, sprop), obs,
                     row_of(exp2d[mprop], k), {"case": "ca0", "prop": sprop})
            for prop, e in b["parts"][k].items():
                if prop.endswith("_pos") or prop.startswith("min_base"):
                    continue
                evals += 1
                try:
                    obs = getattr(slice_, prop)
                except Exception as ex:  # noqa
                    problems.append(("CA-as-0th slice %d .%s raised %r" % (k, prop, ex),
                                     {"case": "ca0", "prop": prop, "raises": True}))
                    continue
                _cmp(problems, "CA-as-0th slice %d .%s" % (k, prop), obs, e,
                     {"case": "ca0", "prop": prop})

    # ---- CA as 0th cube with numeric measures: strand k reports row k of the 2-D measure
    yy = dict(yvals=(0, 1, 3), ymeasures=("mean", "sum", "stddev", "median"), valid_counts=True)
    sCY, rCY, st, err = records_for(
        scenario("ca0_casub_x_cacat_y", [caitems("A", 3), cacat("A", 3, miss=[2])], **yy),
        "c01", seed + 7, nrec)
    gen += st["generated"]
    if err:
        return problems, evals, gen, err
    sCYB, rCYB, st, err = records_for(
        scenario("ca0_casub_x_cacat_x_cat_y", [caitems("A", 3), cacat("A", 3, miss=[2]), cat("B", 2)],
                 **yy), "c01", seed + 8, nrec)
    gen += st["generated"]
    if err:
        return problems, evals, gen, err
    for a, b in zip(rCY, rCYB):
        cs = CubeSet([resp(sCY, a), resp(sCYB, b)], [{}, {}], None, 0)
        evals += 1
        psets = cs.partition_sets
        if not cs.is_ca_as_0th or len(psets) != 3 or any(len(p) != 2 for p in psets):
            problems.append(("CA-as-0th (numeric measures): partition_sets has shape %s" %
                             ([len(p) for p in psets],), {"case": "ca0y", "prop": "partition_sets"}))
            continue
        for flag, want in (("has_numeric_measures", True), ("has_weighted_counts", True),
                           ("n_responses", a["hdr"]["n"]), ("missing_count", a["hdr"]["ymissing"])):
            evals += 1
            got = getattr(cs, flag)
            if got != want:
                problems.append(("CA-as-0th (numeric measures): CubeSet.%s is %r, the leading "
                                 "response says %r" % (flag, got, want), {"case": "ca0y", "prop": flag}))
        exp2d = a["parts"][0]
        for k, (strand, slice_) in enumerate(psets):
            for prop in ("means", "sums", "stddev", "medians", "counts", "unweighted_counts"):
                evals += 1
                try:
                    obs = getattr(strand, prop)
                except Exception as ex:  # noqa
                    problems.append(("CA-as-0th strand %d .%s raised %r" % (k, prop, ex),
                                     {"case": "ca0y", "prop": prop, "raises": True}))
                    continue
                _cmp(problems, "CA-as-0th strand %d .%s" % (k, prop), obs,
                     row_of(exp2d[prop], k), {"case": "ca0y", "prop": prop})
            for prop in ("means", "sums", "counts"):
                evals += 1
                _cmp(problems, "CA-as-0th slice %d .%s" % (k, prop), getattr(slice_, prop),
                     b["parts"][k][prop], {"case": "ca0y", "prop": prop})

    # ---- single-column filter cube: the server lists only the row values that occur among
    # ---- the filtered respondents; the library restores the rows of the summary cube (zero
    # ---- counts) so that the k-th row of both cubes is the same element
    # ---- (the library REBUILDS the filter cube: population, minimum base and transforms of
    # ---- that member must survive -- hide + prune configuration, population estimates)
    fc_cfgs = [configs.DEFAULT,
               configs.config(rows=configs.dimcfg(hide=[1], prune=True)),
               configs.config(rows=configs.dimcfg(hide=[2]))]
    sF, rF, st, err = records_for(
        scenario("fc_text", [cat("A", 5, miss=[5], subtype="text", ids=[0, 1, 2, 3, -1])],
                 weighted=False, weights=[1], min_base=5, population=1000, configs=fc_cfgs),
        "c06f", seed + 9, 4 * nrec, min_resp=1)
    gen += st["generated"]
    if err:
        return problems, evals, gen, err
    for a, b in zip(rF[::2], rF[1::2]):
        ca, cb = fc_cfgs[a.get("ci", 1) - 1], fc_cfgs[b.get("ci", 1) - 1]
        r0, r1 = envelope.build_response(sF, a, ca), envelope.build_response(sF, b, cb)
        # the filter cube as the server sends it: rows without respondents are left out
        keep = [i for i, (el, n) in enumerate(zip(r1["result"]["dimensions"][0]["type"]["elements"],
                                                  r1["result"]["counts"]))
                if el["missing"] or n > 0]
        dim1 = r1["result"]["dimensions"][0]["type"]
        dim1["elements"] = [dim1["elements"][i] for i in keep]
        r1["result"]["counts"] = [r1["result"]["counts"][i] for i in keep]
        for m in r1["result"]["measures"].values():
            m["data"] = [m["data"][i] for i in keep]
        r1["result"]["is_single_col_cube"] = True
        xfa, xfb = configs.transforms_dict(ca), configs.transforms_dict(cb)
        # second pass: a further CubeSet over the SAME response and transform objects
        for reuse in (False, True):
            cs = CubeSet([r0, r1], [xfa, xfb],
                         sF["population"], sF["min_base"])
            psets = cs.partition_sets
            evals += 1
            if len(psets) != 1 or len(psets[0]) != 2:
                problems.append(("filter-column set: partition_sets has shape %s" %
                                 ([len(p) for p in psets],), {"case": "filtercol", "prop": "partition_sets"}))
                continue
            for part, rec, name in zip(psets[0], (a, b), ("summary", "filter column")):
                for prop, e in rec["parts"][0].items():
                    if prop.endswith("_pos"):
                        continue
                    evals += 1
                    try:
                        obs = getattr(part, prop)
                    except Exception as ex:  # noqa
                        problems.append(("filter-column set %s.%s raised %r" % (name, prop, ex),
                                         {"case": "filtercol", "prop": prop, "raises": True}))
                        continue
                    _cmp(problems, "filter-column set %s.%s" % (name, prop), obs, e,
                         {"case": "filtercol", "prop": prop, "part": name, "reuse": reuse})

    # ---- numeric-measure rows: 0-D + 1-D cubes are padded with a one-row dimension
    y = dict(yvals=(0, 1, 3), ymeasures=("mean",), valid_counts=True)
    sN, rN, st, err = records_for(scenario("nm_nub", [], **y), "c01", seed + 5, nrec, min_resp=2)
    gen += st["generated"]
    if err:
        return problems, evals, gen, err
    sNB, rNB, st, err = records_for(scenario("nm_cat", [cat("B", 3, miss=[2])], **y), "c01", seed + 6, nrec)
    gen += st["generated"]
    if err:
        return problems, evals, gen, err
    for a, b in zip(rN, rNB):
        for as_text in (False, True):
            r0, r1 = resp(sN, a), resp(sNB, b)
            if as_text:
                import json
                r0, r1 = json.dumps(r0), json.dumps(r1)
            cs = CubeSet([r0, r1], [{}, {}], None, 0)
            psets = cs.partition_sets
            evals += 1
            tags = {"case": "numeric", "as_text": as_text}
            if len(psets) != 1 or len(psets[0]) != 2:
                problems.append(("numeric-measure set: partition_sets has shape %s" %
                                 ([len(p) for p in psets],), dict(tags, prop="partition_sets")))
                continue
            strand, slice_ = psets[0]
            if type(strand).__name__ != "_Strand" or type(slice_).__name__ != "_Slice":
                problems.append(("numeric-measure set: partitions are %s / %s, expected a padded "
                                 "_Strand and a 1 x N _Slice" %
                                 (type(strand).__name__, type(slice_).__name__),
                                 dict(tags, prop="partition types")))
                continue
            evals += 2
            nub_mean = a["parts"][0]["means"]
            _cmp(problems, "numeric-measure strand.means", strand.means,
                 {"k": "num", "nd": 1, "v": [nub_mean["v"]]}, dict(tags, prop="means"))
            e = b["parts"][0]["means"]
            _cmp(problems, "numeric-measure slice.means", slice_.means,
                 {"k": "num", "nd": 2, "v": [e["v"]]}, dict(tags, prop="means"))
            if tuple(slice_.shape) != (1, len(e["v"])):
                problems.append(("numeric-measure slice shape %s" % (slice_.shape,),
                                 dict(tags, prop="shape")))
    return problems, evals, gen, None
