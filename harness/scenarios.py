"""Scenario descriptions: the single source for both the MC_ module constants and the
response envelope."""
import copy

from tlcrun import tla_value


def cat(var, n, miss=(), ids=None, vals=None, date=False, subtype=None, **kw):
    d = {"kind": "cat", "var": var, "n": n, "miss": sorted(miss),
         "ids": list(ids) if ids else list(range(1, n + 1)),
         "vals": list(vals) if vals else [None] * n, "date": date}
    if subtype:
        d["subtype"] = subtype
    d.update(kw)
    return d


def mr(var, n, **kw):
    d = {"kind": "mr", "var": var, "n": n, "miss": [], "ids": list(range(1, n + 1)),
         "vals": [None] * n, "date": False}
    d.update(kw)
    return d


def caitems(var, n, **kw):
    d = {"kind": "caitems", "var": var, "n": n, "miss": [], "ids": list(range(1, n + 1)),
         "vals": [None] * n, "date": False}
    d.update(kw)
    return d


def cacat(var, n, miss=(), ids=None, vals=None, **kw):
    d = {"kind": "cacat", "var": var, "n": n, "miss": sorted(miss),
         "ids": list(ids) if ids else list(range(1, n + 1)),
         "vals": list(vals) if vals else [None] * n, "date": False}
    d.update(kw)
    return d


def numarr(var, n, **kw):
    d = {"kind": "numarr", "var": var, "n": n, "miss": [], "ids": list(range(n)),
         "vals": [None] * n, "date": False}
    d.update(kw)
    return d


def scenario(name, dims, weights=(1, 2), max_resp=2, yvals=(), weighted=True,
             min_base=2, **kw):
    s = {"name": name, "dims": dims, "weights": list(weights), "max_resp": max_resp,
         "yvals": list(yvals), "weighted": weighted, "min_base": min_base}
    if not weighted:
        s["weights"] = [1]
    s.update(kw)
    return s


def dim_record(d):
    der = {int(k): v for k, v in (d.get("derived") or {}).items()}
    der_seq = "<<" + ", ".join(
        "[is |-> %s, of |-> %s, at |-> %s, ref |-> %d]" % (
            tla_value(p in der), tla_value(set((der.get(p) or {}).get("of", ()))),
            tla_value((der.get(p) or {}).get("at", "none")), (der.get(p) or {}).get("ref", 0))
        for p in range(1, d["n"] + 1)) + ">>"
    return ("[kind |-> %s, var |-> %s, n |-> %d, miss |-> %s, ids |-> %s, vals |-> %s, "
            "date |-> %s, lrank |-> %s, der |-> %s]" % (
                tla_value(d["kind"]), tla_value(d["var"]), d["n"],
                tla_value(set(d["miss"])), tla_value(d["ids"]),
                tla_value(d["vals"]), tla_value(bool(d["date"])),
                tla_value(d.get("lrank") or list(range(1, d["n"] + 1))), der_seq))


def filter_record(f):
    f = dict(f or {})
    return {"style": f.get("style", "none"), "sel": f.get("sel", 0), "oth": f.get("oth", 0),
            "catdate": bool(f.get("catdate", False)), "fn": f.get("fn"), "un": f.get("un")}


def mc_defs(scn):
    """operator definitions placed in the generated MC module"""
    import configs
    return {
        "MC_Configs": configs.tla_configs(scn.get("configs") or [configs.DEFAULT]),
        "MC_Dims": "<<" + ", ".join(dim_record(d) for d in scn["dims"]) + ">>",
        "MC_Weights": tla_value(set(scn["weights"])),
        "MC_Filter": tla_value(filter_record(scn.get("filter"))),
        "MC_YVals": tla_value(set(scn["yvals"])),
        "MC_Batches": tla_value(set(scn.get("batches") or (1,))),
    }


def mc_cfg(scn, family, invariants=("EmitInv",), extra_constants=(), sim=False):
    lines = [
        "CONSTANTS",
        "  Dims <- MC_Dims",
        "  Weights <- MC_Weights",
        "  YVals <- MC_YVals",
        "  Batches <- MC_Batches",
        "  Configs <- MC_Configs",
        "  MaxResp = %d" % scn["max_resp"],
        "  WDen = %d" % (scn.get("wden") or 1),
        "  Weighted = %s" % ("TRUE" if scn["weighted"] else "FALSE"),
        "  ValidCounts = %s" % ("TRUE" if scn.get("valid_counts") else "FALSE"),
        "  SimMode = %s" % ("TRUE" if sim else "FALSE"),
        "  SumNaN = %s" % ("TRUE" if scn.get("sum_nan") else "FALSE"),
        ("  Population <- NoPopulation" if scn.get("population") is None
         else "  Population = %d" % scn["population"]),
        "  SquaredWeights = %s" % ("TRUE" if scn.get("squared_weights") else "FALSE"),
        "  Overlaps = %s" % ("TRUE" if scn.get("overlaps") else "FALSE"),
        "  Filter <- MC_Filter",
        "  Scn = %s" % tla_value(scn["name"]),
        "  Family = %s" % tla_value(family),
        "  MinBase = %d" % scn["min_base"],
    ]
    lines += ["  " + c for c in extra_constants]
    lines += ["SPECIFICATION SpecV", "CHECK_DEADLOCK FALSE"]
    lines += ["INVARIANT " + i for i in invariants]
    return lines


def variant(scn, suffix, **kw):
    s = copy.deepcopy(scn)
    s["name"] = scn["name"] + suffix
    s.update(kw)
    return s


def n_profiles(scn):
    """number of distinct answer profiles of the scenario's survey"""
    n = 1
    seen = set()
    dims = scn["dims"]
    ny = len(scn["yvals"]) + 1
    for d in dims:
        v = d["var"]
        if v in seen:
            continue
        seen.add(v)
        k = d["kind"]
        if k == "cat":
            n *= d["n"]
        elif k == "mr":
            n *= 3 ** (d["n"] - len(d.get("derived") or {}))
        elif k == "numarr":
            n *= ny ** d["n"]
        else:
            items = [x for x in dims if x["var"] == v and x["kind"] == "caitems"][0]
            cats = [x for x in dims if x["var"] == v and x["kind"] == "cacat"][0]
            n *= cats["n"] ** items["n"]
    if scn["yvals"] and not any(d["kind"] == "numarr" for d in dims):
        n *= ny
    return n


def n_keys(scn):
    return n_profiles(scn) * len(scn["weights"])


def n_bags(k, n):
    """number of bags of size <= n over k keys = C(k + n, n)"""
    from math import comb
    return comb(k + n, n)


def bfs_bound(scn, budget):
    """largest respondent bound whose complete state space fits the budget (>= 1)"""
    k = n_keys(scn)
    n = 1
    while n < 6 and n_bags(k, n + 1) <= budget:
        n += 1
    return n
