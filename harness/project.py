"""Projection function: compare what the library returned with what the spec says.

Spec values are tagged records {"k": kind, "nd": depth, "v": value}:
  num      leaves are rationals [n, d]; d == 0 encodes NaN (n == 0) or +-inf (sign n)
  sqrt     leaves are rationals giving the SQUARE of a non-negative observed number
  ssqrt    leaves are [sign, [n, d]]: sign of the observed number and its square
  exact    compared for equality after converting numpy types to Python
  none     the library must return None
  oneof    v is a list of acceptable exact values
  zsign    leaves are -1 / 1 (sign of a defined number), 2 (NaN) or 3 (open); zsign_p: the
           p-value of such a number (NaN / within [0, 1])
"""
import math

import numpy as np

REL_TOL = 1e-9


def to_py(x):
    if isinstance(x, np.ma.MaskedArray):
        x = x.filled(np.nan)
    if isinstance(x, np.ndarray):
        return to_py(x.tolist()) if x.dtype == object else x.tolist()
    if isinstance(x, (np.floating,)):
        return float(x)
    if isinstance(x, (np.integer,)):
        return int(x)
    if isinstance(x, (np.bool_,)):
        return bool(x)
    if isinstance(x, (tuple, list)):
        return [to_py(v) for v in x]
    return x


def close_rat(x, n, d):
    """float x equals rational n/d (d==0: NaN / +-inf)"""
    if x is None or isinstance(x, (str, list, dict)):
        return False
    if isinstance(x, bool):
        x = int(x)
    if d == 0:
        if n == 0:
            return isinstance(x, float) and math.isnan(x)
        return isinstance(x, float) and math.isinf(x) and (x > 0) == (n > 0)
    if isinstance(x, float) and (math.isnan(x) or math.isinf(x)):
        return False
    return abs(x * d - n) <= REL_TOL * max(abs(n), abs(d), 1)


def _is_any(e):
    return isinstance(e, list) and len(e) == 2 and e[1] == -1


def _leaf_ok(kind, x, e, scale=None):
    if _is_any(e) or (kind in ("ssqrt", "tail_normal") and _is_any(e[1])):
        return True
    if scale is not None and isinstance(x, (int, float)) and not isinstance(x, bool):
        # observed = scale * sqrt(leaf), with IEEE rules for a zero / undefined scale
        if scale[1] == 0:
            leaf_zero_or_nan = (e[1] == 0 and e[0] == 0) or (e[1] != 0 and e[0] == 0)
            if scale[0] == 0 or leaf_zero_or_nan:
                return isinstance(x, float) and math.isnan(x)
            return isinstance(x, float) and math.isinf(x)
        if scale[0] == 0:
            if e[1] == 0:
                return isinstance(x, float) and math.isnan(x)
            return abs(x) <= 1e-12
        x = x * scale[1] / scale[0]
    if kind == "num":
        return close_rat(x, e[0], e[1])
    if kind == "sqrt":
        n, d = e
        if d == 0:
            return close_rat(x, n, d)
        if not isinstance(x, (int, float)) or isinstance(x, bool) and False:
            return False
        if isinstance(x, float) and math.isnan(x):
            return False
        return x >= 0 and close_rat(x * x, n, d)
    if kind == "ssqrt":
        s, (n, d) = e
        if d == 0:
            return close_rat(x, n, d)
        if not isinstance(x, (int, float)) or (isinstance(x, float) and math.isnan(x)):
            return False
        sx = (x > 0) - (x < 0)
        if n == 0:
            return abs(x) <= 1e-12
        return sx == s and close_rat(x * x, n, d)
    if kind == "fq_ssqrt":
        sign, num, den = e[:3]
        if _is_any(num) or _is_any(den) or _open_at_zero_variance(e):
            return True
        want2 = fq_t2(num, den)
        if math.isnan(want2) or want2 < 0:
            return isinstance(x, float) and math.isnan(x)
        if not isinstance(x, (int, float)) or (isinstance(x, float) and math.isnan(x)):
            return False
        if math.isinf(want2):
            return math.isinf(x) and ((x > 0) == (sign > 0))
        if want2 == 0:
            return abs(x) <= 1e-9
        sx = (x > 0) - (x < 0)
        return sx == sign and abs(x * x - want2) <= 1e-9 * max(1.0, want2)
    if kind == "tail_t":
        (sign, num, den), (dfn, dfd) = e[0][:3], e[1]
        if _is_any(num) or _is_any(den) or _open_at_zero_variance(e[0]):
            return True
        want = t_tail(fq_t2(num, den), fq_value(dfn, dfd))
        if math.isnan(want):
            return isinstance(x, float) and math.isnan(x)
        if not isinstance(x, (int, float)) or (isinstance(x, float) and math.isnan(x)):
            return False
        return abs(x - want) <= 1e-9
    if kind in ("zsign", "zsign_p"):
        # huge tables (Derived!ZSignD): -1 / 1 sign of a defined z-score, 2 NaN, 3 open
        if e == 3:
            return True
        if not isinstance(x, (int, float)) or isinstance(x, bool):
            return False
        if e == 2:
            return isinstance(x, float) and math.isnan(x)
        if math.isnan(x) or math.isinf(x):
            return False
        if kind == "zsign_p":
            return 0.0 <= x <= 1.0
        return ((x > 0) - (x < 0)) == e
    if kind == "tail_normal":
        # e = [sign, z2]; expected p-value 2(1 - Phi(|z|)) = erfc(|z| / sqrt 2)
        n, d = e[1]
        if d == 0:
            if n == 0:
                return isinstance(x, float) and math.isnan(x)
            return isinstance(x, (int, float)) and abs(x) <= 1e-12
        if not isinstance(x, (int, float)) or (isinstance(x, float) and math.isnan(x)):
            return False
        p = math.erfc(math.sqrt(n / d / 2.0))
        return 0.0 <= x <= 1.0 and abs(x - p) <= 1e-9
    raise ValueError(kind)


def _walk(kind, depth, x, e, path, errs, scale=None):
    if depth == 0:
        if not _leaf_ok(kind, x, e, scale):
            errs.append((tuple(path), x, e))
        return
    if not isinstance(x, list) or len(x) != len(e):
        errs.append((tuple(path), "shape %s" % (_shape(x),), "shape len %d" % len(e)))
        return
    for i, (xi, ei) in enumerate(zip(x, e)):
        _walk(kind, depth - 1, xi, ei, path + [i], errs, scale)
        if len(errs) > 5:
            return


def _shape(x):
    try:
        return list(np.shape(x))
    except Exception:
        return "?"


def _flat(x):
    out = []
    for v in x:
        out.extend(_flat(v) if isinstance(v, list) else [v])
    return out


def _open_at_zero_variance(q):
    """a formal quotient marked "cancelling" whose variance is exactly 0 (Pairwise.tla)"""
    return (len(q) > 3 and q[3] == "cancelling" and not _is_any(q[2])
            and q[2][0] == 0 and q[2][1] != 0)


def fq_t2(num, den):
    """t^2 = num / den where den is a variance estimate: the statistic is d / sqrt(den), so it
    is undefined (NaN) for a negative den even when d = 0"""
    n, d = den
    if d != 0 and n < 0:
        return float("nan")
    return fq_value(num, den)


def fq_value(num, den):
    """float value of the formal quotient num / den of two spec rationals (IEEE rules)"""
    def f(r):
        n, d = r
        if d == 0:
            return float("nan") if n == 0 else math.copysign(float("inf"), n)
        return n / d
    a, b = f(num), f(den)
    if math.isnan(a) or math.isnan(b):
        return float("nan")
    if b == 0:
        return float("nan") if a == 0 else math.copysign(float("inf"), a)
    if math.isinf(a) and math.isinf(b):
        return float("nan")
    return a / b


def t_tail(t2, df):
    """two-sided Student-t tail of sqrt(t2) with df degrees of freedom (scipy, as the
    library itself uses); NaN when undefined"""
    from scipy.stats import t as student
    if math.isnan(t2) or math.isnan(df) or t2 < 0:
        return float("nan")
    with np.errstate(all="ignore"):
        return float(2 * (1 - student.cdf(math.sqrt(t2) if t2 != float("inf") else t2, df=df)))


def compare(observed, expected):
    """-> list of (path, observed leaf, expected leaf); empty when they agree"""
    kind, nd, v = expected["k"], expected["nd"], expected["v"]
    obs = to_py(observed)
    errs = []
    if kind == "none":
        if obs is not None:
            errs.append(((), obs, None))
        return errs
    if kind == "exact":
        if obs != v:
            errs.append(((), obs, v))
        return errs
    if kind == "bogus":
        want = [r["b"] if r["b"] >= 0 else "ins_%d" % r["s"] for r in v]
        if obs != want:
            errs.append(((), obs, want))
        return errs
    if kind == "any":
        return errs
    if kind == "pwidx":
        alpha, only_larger = expected["alpha"], expected["only_larger"]
        if all(len(row) == 0 for row in v) and isinstance(obs, list) and not _flat(obs):
            # no column is displayed: there is no index set to report.  (That the empty
            # array then has shape (0,) rather than (n_rows, 0) is C05's finding, not C13's.)
            return errs
        if not isinstance(obs, list) or len(obs) != len(v):
            errs.append(((), "shape %s" % (_shape(obs),), "rows %d" % len(v)))
            return errs
        for i, row in enumerate(v):
            if not isinstance(obs[i], list) or len(obs[i]) != len(row):
                errs.append(((i,), "shape %s" % (_shape(obs[i]),), "cols %d" % len(row)))
                return errs
            for j, cands in enumerate(row):
                must, may = set(), set()
                for c in cands:
                    if c["self"]:
                        continue
                    sign, num, den = c["t"][:3]
                    if _open_at_zero_variance(c["t"]):
                        may.add(c["pos"])
                        continue
                    p = t_tail(fq_t2(num, den), fq_value(c["df"][0], c["df"][1]))
                    if math.isnan(p) or (only_larger and not sign < 0):
                        continue
                    if abs(p - alpha) <= 1e-9:
                        may.add(c["pos"])
                    elif p < alpha:
                        must.add(c["pos"])
                got = set(int(k) for k in obs[i][j])
                if not (must <= got <= must | may):
                    errs.append(((i, j), sorted(got), sorted(must)))
                    if len(errs) > 5:
                        return errs
        return errs
    if kind == "oneof":
        if obs not in v:
            errs.append(((), obs, v))
        return errs
    if obs is None:
        errs.append(((), None, "value of kind %s" % kind))
        return errs
    scale = expected.get("scale")
    if scale is not None and list(scale) == [1, 1]:
        scale = None
    _walk(kind, nd, obs, v, [], errs, scale)
    return errs
