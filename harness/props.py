"""Per-property check definitions: which scenarios, which spec family, which replayer."""
import catalogue as C
from runner import make_job

MODEL_CHECKING = "model_checking"

ASSUME_COMMON = [
    "TLC 1.8.0 evaluates the TLA+ text in /verif/spec correctly",
    "harness/envelope.py places the spec's tensors into the response envelope without "
    "computing anything",
    "small scope: the bags of respondents, dimension sizes and weights enumerated are "
    "representative",
    "float vs rational comparison with relative tolerance 1e-9",
]


def _value_jobs(prop_id, family, scns, tier, seed, **kw):
    import scenarios as S
    jobs = []
    bfs_budget, sim_budget = (800, 500) if tier == "quick" else (10000, 6000)
    bfs_budget = kw.pop("bfs_budget", bfs_budget)
    sim_extra = kw.pop("sim_extra", 3)
    sim_budget = kw.pop("sim_budget", sim_budget)
    bfs_empty_only = kw.pop("bfs_empty_only", False)
    # power = (batches, max respondents, depth, behaviours): an additional simulation per
    # scenario whose Interview steps add batches of identical respondents, so that tables
    # hold enough cases for significance tests to fire
    power = kw.pop("power", None)
    for s in scns:
        s = dict(s)
        ncfg = len(s.get("configs") or [1])
        s["max_resp"] = 0 if bfs_empty_only else S.bfs_bound(s, max(2, bfs_budget // ncfg))
        jobs.append(make_job(s, family, ("replay_basic", "replay"), mode="bfs",
                             prop_id=prop_id, **kw))
        depth = max(s["max_resp"], 1) + sim_extra
        num = max(1, sim_budget // depth)
        jobs.append(make_job(s, family, ("replay_basic", "replay"), mode="sim", seed=seed,
                             sim_num=num, sim_depth=depth + 1, sim_max_resp=depth,
                             prop_id=prop_id, timeout=120 if tier == "quick" else 1500, **kw))
        if power:
            batches, pmax, pdepth, pnum = power
            ps = dict(s, name=s["name"] + ".big", batches=tuple(batches))
            jobs.append(make_job(ps, family, ("replay_basic", "replay"), mode="sim",
                                 seed=seed + 7, sim_num=pnum, sim_depth=pdepth, sim_max_resp=pmax,
                                 prop_id=prop_id, timeout=120 if tier == "quick" else 1500,
                                 overflow_ok=True, **kw))
    # biggest first so the pool finishes evenly
    jobs.sort(key=lambda j: -(j["sim_num"] * 1000 if j["mode"] == "sim" else S.n_bags(S.n_keys(j["scn"]), j["scn"]["max_resp"])))
    return jobs


def c01(tier, seed):
    scns = (C.pairings_2d() + C.strands() + C.cubes_3d() + C.numeric_measures()
            + C.numeric_arrays())
    scns = scns + C.unweighted(C.pairings_2d()[:4] + C.strands()[:2] + C.cubes_3d()[:2])
    scns = scns + C.fractional(C.pairings_2d()[:4] + C.strands()[:2] + C.cubes_3d()[:1]
                               + C.numeric_measures()[:2] + C.numeric_arrays()[:2])
    return dict(
        jobs=_value_jobs("C01", "c01", scns, tier, seed),
        rule="TLC enumerates every bag of <= N respondents (BFS) and random larger bags "
             "(simulation) per scenario; one case = one distinct survey state replayed into "
             "Cube; non-trivial = at least one respondent",
        assumptions=ASSUME_COMMON,
        feature_floor=("weights_differ",),
    )


def c02(tier, seed):
    scns = C.pairings_2d() + C.strands() + C.cubes_3d() + C.numeric_arrays()[:2]
    scns = scns + C.unweighted(C.pairings_2d()[:4] + C.strands()[:2])
    scns = scns + C.fractional(C.pairings_2d()[:4] + C.strands()[:1] + C.cubes_3d()[:1])
    scns = scns + [dict(s, name=s["name"] + ".ins") for s in _insertion_scns(tier, seed)]
    return dict(
        jobs=_value_jobs("C02", "c02", scns, tier, seed),
        rule="as C01; bases, margins, ranges and min-base mask compared per state",
        assumptions=ASSUME_COMMON,
        feature_floor=("weights_differ",),
    )


def c03(tier, seed):
    scns = C.pairings_2d() + C.strands() + C.cubes_3d()
    scns = scns + C.unweighted(C.pairings_2d()[:4] + C.strands()[:2])
    scns = scns + C.fractional(C.pairings_2d()[:4] + C.strands()[:1])
    return dict(
        jobs=_value_jobs("C03", "c03", scns, tier, seed, report_warnings=True),
        rule="as C01; proportions, percentages and margin proportions compared per state, "
             "warnings the library lets escape are reported as DRIFT",
        assumptions=ASSUME_COMMON,
        feature_floor=("empty_data", "weights_differ"),
    )


def _with_insertions(scns, n, seed, **kw):
    import configs
    import envelope
    out = []
    for i, s in enumerate(scns):
        s = dict(s)
        ri, ci = envelope.slice_dim_indexes(s["dims"])
        rd = s["dims"][ri]
        cd = s["dims"][ci] if ci is not None else None
        s["configs"] = configs.insertion_configs(rd, cd, n, seed * 1000 + i, **kw)
        out.append(s)
    return out


def c04(tier, seed):
    from scenarios import cat, mr, caitems, cacat, scenario
    n = 12 if tier == "quick" else 60
    y = dict(yvals=(0, 1, 3), ymeasures=("mean", "sum", "stddev", "median"), valid_counts=True)
    scns = [
        scenario("cat_x_cat", [cat("A", 4, miss=[2]), cat("B", 4, miss=[4])]),
        scenario("cat_x_mr", [cat("A", 4, miss=[3]), mr("B", 2)]),
        scenario("mr_x_cat", [mr("A", 2), cat("B", 4, miss=[1])]),
        scenario("catdate_x_cat", [cat("A", 4, miss=[4], date=True), cat("B", 3)]),
        scenario("cat_x_catdate", [cat("A", 3), cat("B", 4, miss=[1], date=True)]),
        scenario("casub_x_cacat", [caitems("A", 2), cacat("A", 4, miss=[2])]),
        scenario("cacat_x_casub", [cacat("A", 4, miss=[3]), caitems("A", 2)]),
        scenario("cat_1d", [cat("A", 4, miss=[2])]),
        scenario("catdate_1d", [cat("A", 4, miss=[1], date=True)]),
        scenario("cat_x_cat_x_cat", [cat("T", 2), cat("A", 3), cat("B", 3, miss=[2])]),
        scenario("cat_x_cat_y", [cat("A", 3), cat("B", 3, miss=[2])], **y),
        scenario("cat_1d_y", [cat("A", 4, miss=[3])], **y),
        scenario("cat_x_cat.u", [cat("A", 4, miss=[2]), cat("B", 3)], weighted=False),
    ]
    scns += C.fractional([scns[0], scns[1], scns[7], scns[10]])
    scns = _with_insertions(scns, n, seed)
    # "pairwise statistics" of subtotals: the c13 outputs for insertion configurations
    pw = _with_insertions([scenario("cat_x_cat.pw", [cat("A", 3, miss=[2]), cat("B", 3)]),
                           scenario("cat_x_cat.sq.pw", [cat("A", 2), cat("B", 3)], squared_weights=True)],
                          5 if tier == "quick" else 25, seed + 1)
    return dict(
        jobs=_value_jobs("C04", "c04", scns, tier, seed)
        + _value_jobs("C04", "c13", pw, tier, seed, single_pass=True,
                      bfs_budget=300 if tier == "quick" else 5000,
                      sim_budget=150 if tier == "quick" else 3000, sim_extra=2),
        rule="per scenario a seeded sample of insertion configurations (addend/subtrahend "
             "sets over valid, missing and stale ids; any anchor; view or transforms) x every "
             "bag of <= N respondents (BFS) and random larger bags; non-trivial = at least one "
             "respondent",
        assumptions=ASSUME_COMMON + ["insertion configurations are sampled by the harness "
                                     "(syntax only); their meaning is Insertions.tla/Collate.tla"],
        feature_floor=("weights_differ",),
    )


def _insertion_scns(tier, seed, extra=()):
    from scenarios import cat, mr, caitems, cacat, scenario
    n = 8 if tier == "quick" else 40
    scns = [
        scenario("cat_x_cat", [cat("A", 4, miss=[2]), cat("B", 4, miss=[3])]),
        scenario("cat_x_mr", [cat("A", 4, miss=[3]), mr("B", 2)]),
        scenario("mr_x_cat", [mr("A", 2), cat("B", 4, miss=[1])]),
        scenario("catdate_x_cat", [cat("A", 3, date=True), cat("B", 3)]),
        scenario("casub_x_cacat", [caitems("A", 2), cacat("A", 3)]),
        scenario("cat_1d", [cat("A", 4, miss=[2])]),
        scenario("cat_x_cat.u", [cat("A", 3), cat("B", 3)], weighted=False),
        scenario("catdate_1d", [cat("A", 4, miss=[3], date=True)]),
        scenario("cat_x_catdate", [cat("A", 3), cat("B", 3, date=True)]),
    ]
    scns += C.fractional(scns[:2]) + list(extra)
    return _with_insertions(scns, n, seed)


def c11(tier, seed):
    scns = C.pairings_2d()[:8] + C.strands()[:2] + C.cubes_3d()[:4] + C.unweighted(C.pairings_2d()[:2])
    scns = scns + C.fractional(C.pairings_2d()[:4] + C.strands()[:1])
    # quarters: several respondents whose weights add up to less than 1
    scns = scns + [dict(s, name=s["name"] + "4") for s in
                   C.fractional(C.pairings_2d()[:2], wden=4, weights=(1, 2))]
    scns = scns + [dict(s, name=s["name"] + ".ins") for s in _insertion_scns(tier, seed)]
    return dict(
        jobs=_value_jobs("C11", "c11", scns, tier, seed,
                         power=((1, 3, 7), 25, 5, 5 if tier == "quick" else 80)),
        rule="as C04: plain scenarios plus seeded insertion configurations (subtotals, "
             "differences, intersections) x TLC-enumerated bags; variances compared as "
             "rationals, std-dev / std-err / MoE by square and sign",
        assumptions=ASSUME_COMMON,
        feature_floor=("weights_differ", "ins_rows", "diff_rows", "intersection"),
    )


def c12(tier, seed):
    from scenarios import cat, scenario
    scns = C.pairings_2d()[:8] + C.cubes_3d()[:5] + C.unweighted(C.pairings_2d()[:2])
    scns = scns + C.fractional(C.pairings_2d()[:4], wden=4, weights=(1, 2, 5))
    scns.append(scenario("cat2_x_cat2", [cat("A", 3, miss=[2]), cat("B", 2)], max_resp=3))
    # single-vector tables (rank < 2 whatever the data): one MR item, one valid category
    from scenarios import mr
    scns.append(scenario("mr1_x_cat", [mr("A", 1), cat("B", 3)], max_resp=3))
    scns.append(scenario("cat_x_mr1", [cat("A", 3, miss=[1]), mr("B", 1)], max_resp=3))
    scns.append(scenario("cat1_x_cat", [cat("A", 2, miss=[1]), cat("B", 3)], max_resp=3))
    scns = scns + [dict(s, name=s["name"] + ".ins") for s in _insertion_scns(tier, seed)
                   if len(s["dims"]) > 1]
    # huge tables: simulated bags of a few single respondents and batches of 100,000, so
    # that a (subtotal) row or column base lies within 1e-5 of the table base without being
    # equal to it (family "c12h": definedness and sign of the residuals, see Derived.tla)
    from runner import make_job
    huge = _with_insertions(
        [scenario("cat_x_cat.huge", [cat("A", 3), cat("B", 3)], weighted=False),
         scenario("cat_x_cat.huge.w", [cat("A", 4, miss=[2]), cat("B", 2)], weights=(1, 3))], 0, seed)
    huge += [scenario("mr_x_cat.huge", [mr("A", 2), cat("B", 2)], weighted=False),
             scenario("cat_x_mr.huge", [cat("A", 2), mr("B", 2)], weighted=False)]
    huge_jobs = [make_job(dict(s, batches=(1, 1, 100000)), "c12h", ("replay_basic", "replay"),
                          mode="sim", seed=seed + 11, sim_num=250 if tier == "quick" else 3000,
                          sim_depth=5, sim_max_resp=300004, prop_id="C12",
                          timeout=300 if tier == "quick" else 1500) for s in huge]
    return dict(
        jobs=_value_jobs("C12", "c12", scns, tier, seed,
                         invariants=("EmitInv", "ThmZ2IsChiSq"), sim_extra=3,
                         power=((1, 3, 7), 25, 5, 5 if tier == "quick" else 80)) + huge_jobs,
        rule="as C04 (plain + insertion configurations) x TLC-enumerated bags, so that "
             "degenerate tables (single row/column, proportional rows, empty margins) occur; "
             "z by sign and square, p against the two-sided normal tail of the spec's Z2; "
             "spec theorem Z2 = chi-square on 2x2 checked by TLC in every state",
        assumptions=ASSUME_COMMON + ["normal tail evaluated with math.erfc (tolerance 1e-9)"],
        feature_floor=("weights_differ", "ins_rows"),
    )


def c14(tier, seed):
    import random
    from scenarios import cat, mr, caitems, cacat, scenario
    rng = random.Random(seed * 7 + 1)
    pool = [-1, 0, 1, 2, None]
    scns = []
    fixed = [([1, 2, 3], [None, None, None]), ([None, 2, 1], [3, 1, 2]), ([2, 2, None], [0, -1, 1]),
             ([None, None, None], [1, 3, 2])]
    nrand = 4 if tier == "quick" else 10
    assigns = fixed + [([rng.choice(pool) for _ in range(3)], [rng.choice(pool) for _ in range(3)])
                       for _ in range(nrand)]
    for k, (rv, cv) in enumerate(assigns):
        scns.append(scenario("cat_x_cat.v%d" % k, [cat("A", 3, vals=rv), cat("B", 4, miss=[2], vals=cv[:1] + [5] + cv[1:])]))
    scns.append(scenario("mr_x_cat.v", [mr("A", 2), cat("B", 3, vals=[3, 1, 2])]))
    scns.append(scenario("cat_x_mr.v", [cat("A", 3, vals=[0, 2, 1]), mr("B", 2)]))
    scns.append(scenario("casub_x_cacat.v", [caitems("A", 2), cacat("A", 3, vals=[1, None, 3])]))
    scns.append(scenario("cat_x_cat_x_cat.v", [cat("T", 2), cat("A", 3, vals=[1, 2, 4]), cat("B", 2, vals=[0, 1])]))
    for k, (rv, _) in enumerate(assigns[:5]):
        scns.append(scenario("cat_1d.v%d" % k, [cat("A", 4, miss=[3], vals=rv[:2] + [7] + rv[2:])]))
    scns.append(scenario("cat_x_cat.v.u", [cat("A", 3, vals=[1, 2, 3]), cat("B", 3, vals=[2, None, 1])], weighted=False))
    # fractional weights: mean / deviation / error as stated; the median only where every
    # count involved is whole (C14: "for integer counts")
    scns += C.fractional([scns[1], scns[2]] + [x for x in scns if x["name"] in
                                               ("mr_x_cat.v", "cat_1d.v0", "cat_1d.v1")])
    ins = _with_insertions([scenario("cat_x_cat.v.ins", [cat("A", 3, vals=[1, 2, 3]), cat("B", 3, vals=[3, None, 1])]),
                            scenario("cat_1d.v.ins", [cat("A", 4, miss=[2], vals=[1, 9, 2, 4])])],
                           6 if tier == "quick" else 30, seed)
    # huge tables: every bag of <= 3 batches of 99,999 / 100,000 / 100,001 identical
    # respondents, so that a cumulative share lies within 1e-5 of one half without being
    # equal to it (family "c14h": means and medians only, see Emit.tla)
    from runner import make_job
    huge = [scenario("cat_x_cat.huge", [cat("A", 2, vals=[1, 2]), cat("B", 3, vals=[1, 2, 4])], weighted=False),
            scenario("cat_1d.huge", [cat("A", 4, miss=[2], vals=[1, 9, 3, 2])], weights=(1, 2)),
            scenario("cat_x_cat.huge.w", [cat("A", 3, vals=[2, None, 1]), cat("B", 2, vals=[0, 3])], weights=(2,))]
    if tier != "quick":
        huge.append(scenario("cat_x_cat.huge2", [cat("A", 3, vals=[1, 2, 3]), cat("B", 3, miss=[1], vals=[-1, 7, 0])], weighted=False))
    huge_jobs = [make_job(dict(s, batches=(99999, 100000, 100001), max_resp=300001), "c14h",
                          ("replay_basic", "replay"), mode="bfs", prop_id="C14",
                          timeout=300 if tier == "quick" else 1500) for s in huge]
    return dict(
        jobs=_value_jobs("C14", "c14", scns + ins, tier, seed,
                         power=((1, 4, 9), 40, 6, 5 if tier == "quick" else 80)) + huge_jobs,
        rule="numeric-value assignments from {-1,0,1,2,none} (fixed + seeded) x every bag of "
             "<= N respondents (so zero-count categories fall anywhere in the value order) and "
             "random larger bags; subtotal vectors via insertion configurations",
        assumptions=ASSUME_COMMON,
        feature_floor=("weights_differ",),
    )


def c15(tier, seed):
    from scenarios import cat, mr, numarr, scenario
    y = dict(yvals=(0, 1, 2), ymeasures=("sum",), valid_counts=True)
    ynan = dict(y, sum_nan=True)
    plain = [
        scenario("cat_x_cat_s", [cat("A", 3, miss=[2]), cat("B", 3)], **y),
        scenario("numarr_x_cat_s", [numarr("N", 2), cat("B", 3, miss=[2])], **y),
        scenario("numarr_x_mr_s", [numarr("N", 2), mr("B", 2)], **y),
        scenario("cat_x_mr_s", [cat("A", 2), mr("B", 2)], **y),
        scenario("mr_x_cat_s", [mr("A", 2), cat("B", 2)], **y),
        scenario("cat_1d_s", [cat("A", 3, miss=[1])], **y),
        scenario("numarr_1d_s", [numarr("N", 3)], **y),
        scenario("cat_x_cat_snan", [cat("A", 3), cat("B", 2)], **ynan),
        scenario("numarr_x_cat_snan", [numarr("N", 2), cat("B", 2)], **ynan),
    ]
    plain += C.fractional([plain[0], plain[1], plain[5]])
    ins = _with_insertions([
        scenario("cat_x_cat_s.ins", [cat("A", 3), cat("B", 3)], **y),
        scenario("numarr_x_cat_s.ins", [numarr("N", 2), cat("B", 3, miss=[2])], **y),
        scenario("cat_1d_s.ins", [cat("A", 4, miss=[2])], **y),
        scenario("cat_x_cat_snan.ins", [cat("A", 3), cat("B", 3)], **ynan),
    ], 8 if tier == "quick" else 40, seed)
    return dict(
        jobs=_value_jobs("C15", "c15", plain + ins, tier, seed),
        rule="sum responses on categorical, MR and numeric-array rows, with 0 or NaN for empty "
             "cells, x insertion configurations on rows and/or columns x TLC-enumerated bags",
        assumptions=ASSUME_COMMON,
        feature_floor=("ins_rows", "ins_cols", "intersection"),
    )


def c16(tier, seed):
    from scenarios import cat, mr, scenario
    scns = [
        scenario("cat_x_cat", [cat("A", 3, miss=[2]), cat("B", 3, miss=[1])]),
        scenario("cat_x_cat2", [cat("A", 2), cat("B", 4, miss=[2, 4])]),
        scenario("cat_x_mr", [cat("A", 3, miss=[3]), mr("B", 2)]),
        scenario("mr_x_cat", [mr("A", 2), cat("B", 3, miss=[2])]),
        scenario("mr_x_mr", [mr("A", 2), mr("B", 2)]),
        scenario("catdate_x_cat", [cat("A", 2, date=True), cat("B", 3, miss=[3])]),
        scenario("cat_x_cat_x_cat", [cat("T", 2), cat("A", 2), cat("B", 3, miss=[2])]),
        scenario("cat_x_cat_x_cat.tm", [cat("T", 3, miss=[2]), cat("A", 2), cat("B", 3, miss=[1])]),
        scenario("cat_x_cat_x_cat.tm1", [cat("T", 3, miss=[1]), cat("A", 2), cat("B", 2)]),
        scenario("mr_x_cat_x_cat", [mr("T", 2), cat("A", 2), cat("B", 3, miss=[3])]),
        scenario("cat_x_mr_x_cat", [cat("T", 2), mr("A", 2), cat("B", 3, miss=[1])]),
        scenario("cat_x_cat_x_mr", [cat("T", 3, miss=[3]), cat("A", 2), mr("B", 2)]),
        # table dimensions that are not plain categorical, a missing element before a valid one
        scenario("catdate_x_cat_x_cat.tm", [cat("T", 3, miss=[2], date=True), cat("A", 2), cat("B", 2)]),
        scenario("datetime_x_cat_x_cat.tm1", [cat("T", 3, miss=[1], subtype="datetime"), cat("A", 2), cat("B", 2)]),
    ]
    scns += C.unweighted(scns[:2])
    scns += C.fractional(scns[:3])
    # quarters: an item's eligible base can fall below one respondent's worth of weight
    scns += C.fractional([scns[3], scns[4]], wden=4, weights=(1, 2, 5))
    # a numeric-measure response: the counts are the (weighted) valid counts
    scns.append(scenario("cat_x_cat_y", [cat("A", 3, miss=[2]), cat("B", 3, miss=[1])], yvals=(0, 2),
                         ymeasures=("mean",), valid_counts=True))
    scns.append(scenario("cat_x_mr_y", [cat("A", 2), mr("B", 2)], yvals=(0, 2),
                         ymeasures=("mean",), valid_counts=True))
    scns += _with_insertions([scenario("cat_x_cat.ins", [cat("A", 3), cat("B", 3, miss=[2])])],
                             6 if tier == "quick" else 30, seed)
    scns += _with_order_configs([scenario("cat_x_mr.hide", [cat("A", 3, miss=[3]), mr("B", 2)]),
                                 scenario("mr_x_cat.hide", [mr("A", 2), cat("B", 3, miss=[1])]),
                                 scenario("cat_x_cat.hide", [cat("A", 3), cat("B", 3, miss=[2])])],
                                6 if tier == "quick" else 40, seed, with_prune=True)
    return dict(
        jobs=_value_jobs("C16", "c16", scns, tier, seed),
        rule="categorical / MR pairings, 2-D and 3-D, with missing column categories so that "
             "conditional and unconditional row shares differ, x TLC-enumerated bags",
        assumptions=ASSUME_COMMON,
        feature_floor=("weights_differ",),
    )


def c17(tier, seed):
    from scenarios import cat, mr, scenario
    base = [
        ("cat_x_cat", [cat("A", 3, miss=[2]), cat("B", 2)]),
        ("catdate_x_cat", [cat("A", 2, date=True), cat("B", 3, miss=[1])]),
        ("cat_x_catdate", [cat("A", 2), cat("B", 3, miss=[3], date=True)]),
        ("mr_x_cat", [mr("A", 2), cat("B", 2)]),
        ("mr_x_catdate", [mr("A", 2), cat("B", 2, date=True)]),
        ("catdate_x_catdate", [cat("A", 2, date=True), cat("B", 3, miss=[2], date=True)]),
        ("catdate_x_mr", [cat("A", 2, date=True), mr("B", 2)]),
        ("cat_1d", [cat("A", 3, miss=[2])]),
        ("catdate_1d", [cat("A", 3, date=True)]),
        ("mr_1d", [mr("A", 2)]),
    ]
    filters = [
        None,
        {"style": "new", "sel": 3, "oth": 1},
        {"style": "new", "sel": 2, "oth": 3, "catdate": True},
        {"style": "new", "sel": 0, "oth": 0},
        {"style": "old", "fn": 1, "un": 4},
        {"style": "old", "fn": 2, "un": 0},
        {"style": "old", "fn": None, "un": 4},
        {"style": "old", "fn": 3, "un": 5, "null_new": True},
        # the categorical-date flag without complete-case statistics does not apply
        {"style": "old", "fn": 1, "un": 4, "catdate": True},
        {"style": "old", "fn": 3, "un": 0, "catdate": True, "null_new": True},
    ]
    pops = [1000, 0, None, 1, 7]
    scns = []
    k = 0
    for name, dims in base:
        for fi, f in enumerate(filters):
            pop = pops[k % len(pops)]
            k += 1
            if tier == "quick" and fi % 2 == (k // len(filters)) % 2 and fi > 1:
                continue
            scns.append(scenario("%s.f%d" % (name, fi), dims, population=pop, filter=f))
    ins = _with_insertions([
        scenario("cat_x_cat.ins", [cat("A", 3), cat("B", 3)], population=500,
                 filter={"style": "new", "sel": 1, "oth": 1}),
        scenario("catdate_x_cat.ins", [cat("A", 3, date=True), cat("B", 3)], population=90),
        scenario("cat_1d.ins", [cat("A", 4, miss=[3])], population=12, filter={"style": "old", "fn": 1, "un": 3}),
        scenario("catdate_1d.ins", [cat("A", 4, miss=[1], date=True)], population=40),
    ], 6 if tier == "quick" else 30, seed)
    return dict(
        jobs=_value_jobs("C17", "c17", scns + ins + C.fractional(scns[:3] + ins[:1]), tier, seed,
                         bfs_budget=300 if tier == "quick" else 8000,
                         sim_budget=150 if tier == "quick" else 6000),
        rule="every filter-statistics shape (absent, new, new+cat-date, zero, old, zero "
             "denominator, missing field, null new-style) x populations {1000,0,None,1,7} x "
             "cat-date on rows / columns / neither x slices and strands x TLC-enumerated bags",
        assumptions=ASSUME_COMMON,
        feature_floor=("weights_differ",),
    )


def _with_order_configs(scns, n, seed, **kw):
    import configs
    import envelope
    out = []
    for i, s in enumerate(scns):
        s = dict(s)
        ri, ci = envelope.slice_dim_indexes(s["dims"])
        rd = s["dims"][ri]
        cd = s["dims"][ci] if ci is not None else None
        s["configs"] = [configs.DEFAULT] + configs.order_configs(rd, cd, n, seed * 977 + i, **kw)
        out.append(s)
    return out


def c07(tier, seed):
    from scenarios import cat, mr, caitems, cacat, scenario
    n = 400 if tier == "quick" else 6000
    scns = [
        scenario("cat_x_cat", [cat("A", 4, miss=[2]), cat("B", 4, miss=[4], ids=[3, 1, 2, 8])]),
        scenario("cat_x_cat.ids", [cat("A", 4, miss=[1], ids=[7, 3, 1, 2]), cat("B", 3)]),
        scenario("cat_x_mr", [cat("A", 4, miss=[3]), mr("B", 3)]),
        scenario("mr_x_cat", [mr("A", 3), cat("B", 4, miss=[1], ids=[9, 2, 3, 1])]),
        scenario("catdate_x_cat", [cat("A", 3, date=True), cat("B", 3, ids=[2, 3, 1])]),
        scenario("casub_x_cacat", [caitems("A", 3), cacat("A", 3)]),
        scenario("cat_1d", [cat("A", 4, miss=[2], ids=[4, 9, 1, 2])]),
        scenario("mr_1d", [mr("A", 3)]),
        scenario("cat_x_cat_x_cat", [cat("T", 2), cat("A", 3), cat("B", 3, ids=[3, 2, 1])]),
        scenario("mrder_x_cat", [mr("A", 4, derived={1: {"of": [2, 3], "at": "top"},
                                                     4: {"of": [3], "at": "after", "ref": 2}}),
                                 cat("B", 3)]),
        scenario("cat_x_mrder", [cat("A", 3), mr("B", 4, derived={3: {"of": [1, 2], "at": "before", "ref": 1},
                                                                  4: {"of": [1, 2], "at": "bottom"}})]),
        scenario("mrder_1d", [mr("A", 4, derived={2: {"of": [1, 3], "at": "after", "ref": 4}})]),
        # anchors that name no item (stale), before / after, mixed with a bottom item: all go
        # to the bottom group in payload order
        scenario("mrstale_x_cat", [mr("A", 5, derived={2: {"of": [1, 3], "at": "after", "ref": 9},
                                                        4: {"of": [1], "at": "bottom"},
                                                        5: {"of": [3], "at": "before", "ref": 8}}),
                                   cat("B", 2)]),
    ]
    scns = _with_order_configs(scns, n, seed)
    for s in scns:
        s["max_resp"] = 0
    jobs = [make_job(dict(s, max_resp=0), "c07", ("replay_basic", "replay"), mode="bfs",
                     prop_id="C07", count_empty_nontrivial=True) for s in scns]
    return dict(
        jobs=jobs,
        rule="per scenario a seeded sample of configurations: explicit id lists (subsets, "
             "repeats, stale and missing ids) or payload order, hidden subsets, 0-3 insertions "
             "with any anchor spelling, with / without / mixed ids, on the view or in the "
             "transforms; element ids not ascending in the payload; each configuration x the "
             "empty survey and every single respondent",
        assumptions=ASSUME_COMMON + ["configurations are sampled by the harness (syntax "
                                     "only); their meaning is Insertions.tla / Collate.tla"],
        feature_floor=("ins_rows",),
    )


def c09(tier, seed):
    from scenarios import cat, mr, caitems, cacat, numarr, scenario
    n = 10 if tier == "quick" else 60
    w = dict(weights=(0, 1, 2))
    scns = [
        scenario("cat_x_cat", [cat("A", 3, miss=[2]), cat("B", 3)], **w),
        scenario("cat_x_mr", [cat("A", 3), mr("B", 2)], **w),
        scenario("mr_x_cat", [mr("A", 2), cat("B", 3, miss=[3])], **w),
        scenario("mr_x_mr", [mr("A", 2), mr("B", 2)], **w),
        scenario("casub_x_cacat", [caitems("A", 2), cacat("A", 3)], **w),
        scenario("cat_1d", [cat("A", 4, miss=[2])], **w),
        scenario("mr_1d", [mr("A", 3)], **w),
        scenario("cat_x_cat_x_cat", [cat("T", 2), cat("A", 2), cat("B", 3)], **w),
        scenario("mr_x_cat_x_mr", [mr("T", 2), cat("A", 2), mr("B", 2)], **w),
    ]
    scns = _with_order_configs(scns, n, seed, with_prune=True)
    return dict(
        jobs=_value_jobs("C09", "c09", scns, tier, seed),
        rule="seeded hide / prune / order / insertion configurations x every bag of <= N "
             "respondents with weights {0,1,2} (weight 0: unweighted count positive, weighted "
             "zero) and random larger bags",
        assumptions=ASSUME_COMMON,
        feature_floor=("weights_differ",),
    )


def c08(tier, seed):
    import configs
    import envelope
    from scenarios import cat, mr, caitems, cacat, scenario
    n = 40 if tier == "quick" else 150
    y = dict(yvals=(0, 1, 3), ymeasures=("mean", "sum", "stddev"), valid_counts=True)
    base = [
        scenario("cat_x_cat", [cat("A", 4, miss=[2], vals=[1, 9, 3, 2]), cat("B", 4, miss=[4], vals=[2, None, 1, 5])],
                 population=100),
        scenario("cat_x_mr", [cat("A", 4, miss=[3]), mr("B", 3)], population=50),
        scenario("mr_x_cat", [mr("A", 3), cat("B", 4, miss=[1], vals=[7, 1, 2, 3])]),
        scenario("mr_x_mr", [mr("A", 2), mr("B", 2)]),
        scenario("catdate_x_cat", [cat("A", 3, date=True), cat("B", 3)], population=10),
        scenario("cat_1d", [cat("A", 4, miss=[2])]),
        scenario("mr_1d", [mr("A", 3)]),
        scenario("cat_x_cat_y", [cat("A", 3), cat("B", 3, miss=[2])], **y),
        scenario("cat_1d_y", [cat("A", 3)], **y),
        scenario("cat_x_cat.u", [cat("A", 3), cat("B", 3)], weighted=False),
    ]
    base += C.fractional([base[0], base[5], base[7]], weights=(1, 3))
    scns = []
    for i, s in enumerate(base):
        s = dict(s)
        ri, ci = envelope.slice_dim_indexes(s["dims"])
        rd = s["dims"][ri]
        cd = s["dims"][ci] if ci is not None else None
        s["configs"] = configs.sort_configs(rd, cd, n, seed * 131 + i, has_y=tuple(s.get("ymeasures") or ()) if s["yvals"] else False)
        if cd is not None and rd["kind"] == "cat" and s.get("population"):
            valid = [x for p, x in enumerate(rd["ids"], 1) if p not in rd["miss"]]
            cvalid = [x for p, x in enumerate(cd["ids"], 1) if p not in cd["miss"]]
            for meas in ("population", "table_percent", "col_percent"):
                s["configs"].append(configs.config(
                    configs.dimcfg(vins=[configs.insertion("D", "top", [valid[0]], [valid[1]], id=31),
                                         configs.insertion("S", "bottom", valid[-1:], id=32)],
                                   order={"type": "opposing_element", "measure": meas,
                                          "eid": cvalid[0]}),
                    configs.dimcfg()))
        if cd is not None and rd["kind"] == "cat" and cd["kind"] == "cat":
            rvalid = [x for p, x in enumerate(rd["ids"], 1) if p not in rd["miss"]]
            cvalid = [x for p, x in enumerate(cd["ids"], 1) if p not in cd["miss"]]
            if len(rvalid) >= 2 and len(cvalid) >= 3:
                for meas in ("count_weighted", "col_percent", "row_percent"):
                    s["configs"].append(configs.config(
                        configs.dimcfg(vins=[configs.insertion("RS", "bottom", rvalid[:2], id=51),
                                             configs.insertion("RT", "top", rvalid[-1:], id=52)]),
                        configs.dimcfg(vins=[configs.insertion("CS1", "top", cvalid[:2], id=61),
                                             configs.insertion("CS2", "bottom", cvalid[1:], id=62),
                                             configs.insertion("CS3", "bottom", cvalid[-1:], id=63)],
                                       order={"type": "opposing_insertion", "measure": meas,
                                              "iid": 51})))
        configs.assign_label_ranks(s)
        scns.append(s)
    return dict(
        jobs=_value_jobs("C08", "c08", scns, tier, seed, single_pass=True),
        rule="seeded sort-by-value configurations (opposing element / insertion, marginal, "
             "label, univariate measure; every supported measure keyword; both directions; "
             "fixed top/bottom lists with stale and repeated ids; hidden / pruned elements; "
             "subtotals on either dimension; unresolvable keys) x TLC-enumerated bags so that "
             "ties, NaN keys and zero bases occur; the spec emits the SET of acceptable orders",
        assumptions=ASSUME_COMMON + ["label order: the harness supplies the rank of each label "
                                     "under Python str ordering"],
        feature_floor=("weights_differ",),
    )


def c05(tier, seed):
    import configs
    import envelope
    from scenarios import cat, mr, caitems, cacat, scenario
    n = 14 if tier == "quick" else 60
    y = dict(yvals=(0, 1, 3), ymeasures=("mean", "sum", "stddev", "median"), valid_counts=True)
    base = [
        scenario("cat_x_cat", [cat("A", 4, miss=[2], vals=[1, 9, 3, 2]), cat("B", 4, miss=[4], vals=[2, None, 1, 5])],
                 population=100),
        scenario("cat_x_mr", [cat("A", 4, miss=[3]), mr("B", 3)], population=50),
        scenario("mr_x_cat", [mr("A", 3), cat("B", 4, miss=[1], vals=[7, 1, 2, 3])]),
        scenario("mr_x_mr", [mr("A", 2), mr("B", 3)]),
        scenario("catdate_x_cat", [cat("A", 3, date=True), cat("B", 3)], population=10),
        scenario("casub_x_cacat", [caitems("A", 3), cacat("A", 3, vals=[1, 2, 3])]),
        scenario("cat_1d", [cat("A", 4, miss=[2], vals=[3, 1, 1, 2])], population=9),
        scenario("mr_1d", [mr("A", 3)]),
        scenario("cat_x_cat_y", [cat("A", 3), cat("B", 3, miss=[2])], **y),
        scenario("cat_x_cat_x_cat", [cat("T", 2), cat("A", 3), cat("B", 3)]),
        scenario("cat_x_cat.sq", [cat("A", 3), cat("B", 3)], squared_weights=True),
        scenario("mrder_x_cat", [mr("A", 4, derived={1: {"of": [2, 3], "at": "top"},
                                                     4: {"of": [3], "at": "after", "ref": 2}}),
                                 cat("B", 3)]),
    ]
    base += C.fractional([base[0], base[2], base[6]], wden=4, weights=(1, 3, 6))
    scns = []
    for i, s in enumerate(base):
        s = dict(s)
        ri, ci = envelope.slice_dim_indexes(s["dims"])
        rd = s["dims"][ri]
        cd = s["dims"][ci] if ci is not None else None
        s["configs"] = (configs.order_configs(rd, cd, n, seed * 59 + i, with_prune=True)
                        + configs.sort_configs(rd, cd, n // 2, seed * 61 + i, has_y=tuple(s.get("ymeasures") or ()) if s["yvals"] else False))
        configs.assign_label_ranks(s)
        scns.append(s)
    jobs = _value_jobs("C05", "c07", scns, tier, seed,
                       bfs_budget=260 if tier == "quick" else 5000,
                       sim_budget=450 if tier == "quick" else 3000,
                       power=((1, 4, 9), 45, 7, 10 if tier == "quick" else 50))
    if tier == "quick":
        # quick tier: the exhaustive part covers the empty survey only (one state per
        # configuration); the bags come from simulation
        jobs = [j for j in jobs if j["mode"] == "sim"] + [
            make_job(dict(s, max_resp=0), "c07", ("relation", "replay"), mode="bfs",
                     prop_id="C05") for s in scns]
    for j in jobs:
        j["replayer"] = ("relation", "replay")
    return dict(
        jobs=jobs,
        rule="seeded display-transform configurations (explicit / payload / sort-by-value "
             "orders, fixed lists, hide and prune flags on rows and columns at once, with "
             "insertions) x TLC-enumerated bags (empty rows / columns occur); for every state the "
             "library is evaluated with and without the display transforms on the spec's payload, "
             "EVERY public array / scalar property found by reflection is recorded, and TLC "
             "validates each recorded pair against the re-index relation (TraceRelation.tla); "
             "non-trivial = the order changed or elements were removed",
        assumptions=ASSUME_COMMON + ["value identity: floats agree to a relative 1e-9 (the library "
                                     "computes blocks before ordering, so a re-indexed output is "
                                     "in fact bit-identical today)"],
        feature_floor=("order_changed", "elements_removed"),
    )


def c20(tier, seed):
    import configs
    from scenarios import cat, mr, scenario
    y = dict(yvals=(0, 1, 3), ymeasures=("mean",), valid_counts=True)
    wins = [None, "omit", -1, 0, 1, 2, 3, 4, 5, 6]

    def with_windows(s, nper, rows_dim, on_rows=False):
        cfgs = [configs.config()]
        valid = [x for p, x in enumerate(rows_dim["ids"], 1) if p not in rows_dim["miss"]]
        for w in wins:
            if isinstance(w, int) and w > nper + 1:
                continue
            sm = {"win": None, "omit": True} if w == "omit" else {"win": w}
            if on_rows:
                cfgs.append(configs.config(configs.dimcfg(smoother=sm), configs.dimcfg()))
            else:
                cfgs.append(configs.config(configs.dimcfg(), configs.dimcfg(smoother=sm)))
                if rows_dim["kind"] == "cat" and len(valid) >= 2 and w in (2, 3, None):
                    ins = [configs.insertion("S", "bottom", valid[:2], id=41),
                           configs.insertion("D", "top", valid[:1], valid[1:2], id=42)]
                    cfgs.append(configs.config(configs.dimcfg(vins=ins), configs.dimcfg(smoother=sm)))
        s = dict(s)
        s["configs"] = cfgs
        return s

    scns = []
    for nper in ((1, 2, 3, 4) if tier == "quick" else (1, 2, 3, 4, 5)):
        rows = cat("A", 3, miss=[2], vals=[1, 5, 3])
        scns.append(with_windows(scenario("cat_x_catdate%d" % nper, [rows, cat("B", nper, date=True)]), nper, rows))
    rows = cat("A", 2, vals=[2, None])
    scns.append(with_windows(scenario("cat_x_catdate3m", [rows, cat("B", 4, miss=[2], date=True)]), 3, rows))
    rows = mr("A", 2)
    scns.append(with_windows(scenario("mr_x_catdate3", [rows, cat("B", 3, date=True)]), 3, rows))
    rows = cat("A", 2)
    scns.append(with_windows(scenario("cat_x_cat3.nodate", [rows, cat("B", 3)]), 3, rows))
    # a datetime (enum) dimension is a series of dates too, but only a categorical-date one is smoothed
    scns.append(with_windows(scenario("cat_x_datetime3.nodate", [rows, cat("B", 3, subtype="datetime")]),
                             3, rows))
    scns.append(with_windows(scenario("mr_x_text3.nodate", [mr("A", 2), cat("B", 3, subtype="text")]),
                             3, mr("A", 2)))
    scns.append(with_windows(scenario("cat_x_catdate3_y", [rows, cat("B", 3, date=True)], **y), 3, rows))
    rows = cat("A", 4, miss=[3], date=True)
    scns.append(with_windows(scenario("catdate_1d_y", [rows], **y), 3, rows, on_rows=True))
    rows = cat("A", 3)
    scns.append(with_windows(scenario("cat_1d_y.nodate", [rows], **y), 3, rows, on_rows=True))
    return dict(
        jobs=_value_jobs("C20", "c20", scns, tier, seed, single_pass=True),
        rule="series lengths 1-4 (5 thorough) x windows {absent, null, omitted, -1, 0, 1, ..., "
             "periods+1} x TLC-enumerated bags (zero bases give NaN periods), date and non-date "
             "dimensions, 1-D and 2-D, with row subtotals and differences, every smoothed measure",
        assumptions=ASSUME_COMMON,
        feature_floor=("weights_differ",),
    )


def c10(tier, seed):
    import configs
    import envelope
    from scenarios import cat, mr, caitems, cacat, scenario
    n = 8 if tier == "quick" else 60
    y = dict(yvals=(0, 1, 3), ymeasures=("mean", "sum", "stddev", "median"), valid_counts=True)
    base = [
        scenario("cat_x_cat", [cat("A", 4, miss=[2], vals=[1, 9, 3, 2]), cat("B", 3, miss=[3], vals=[2, 1, 5])],
                 population=100),
        scenario("cat_x_mr", [cat("A", 4, miss=[3], vals=[3, 1, 7, 2]), mr("B", 2)], population=50),
        scenario("mr_x_mr", [mr("A", 2), mr("B", 3)]),
        scenario("catdate_x_cat", [cat("A", 3, date=True), cat("B", 3)], population=10),
        scenario("catdate_x_mr", [cat("A", 2, date=True), mr("B", 2)]),
        scenario("casub_x_cacat", [caitems("A", 2), cacat("A", 3, vals=[1, 2, 3])]),
        scenario("cat_x_cat_y", [cat("A", 3), cat("B", 3, miss=[2])], **y),
        scenario("cat_x_mr_y", [cat("A", 2), mr("B", 2)], **y),
        scenario("cat_x_cat.u", [cat("A", 3), cat("B", 2)], weighted=False),
        scenario("cat_x_cat_snan", [cat("A", 3), cat("B", 3)], **dict(y, sum_nan=True)),
    ]
    base += C.fractional([base[0], base[1], base[5]], wden=4, weights=(1, 3, 6))
    scns = []
    for i, s in enumerate(base):
        s = dict(s)
        rd, cd = s["dims"]
        s["configs"] = ([configs.DEFAULT] + configs.insertion_configs(rd, cd, n, seed * 71 + i)
                        + configs.order_configs(rd, cd, n // 2, seed * 73 + i, with_prune=True))
        scns.append(s)
    jobs = _value_jobs("C10", "c07", scns, tier, seed,
                       bfs_budget=220 if tier == "quick" else 5000,
                       sim_budget=450 if tier == "quick" else 3000,
                       bfs_empty_only=(tier == "quick"))
    for j in jobs:
        j["replayer"] = ("mirror", "replay")
    return dict(
        jobs=jobs,
        rule="every 2-D pairing A x B (CAT, CAT_DATE, MR, CA) with insertions, differences and "
             "display transforms x TLC-enumerated bags; the transposed response is built by "
             "exchanging the dimension dicts and permuting the axes of every payload tensor; "
             "both are evaluated by the library and TLC validates the recorded pair against "
             "the mirror table of TraceRelation.tla",
        assumptions=ASSUME_COMMON + ["value identity: floats agree to a relative 1e-9 (the row- and "
                                     "column-direction code paths may round differently)"],
        feature_floor=("data", "insertions"),
    )


def c13(tier, seed):
    import configs
    import random
    from scenarios import cat, mr, scenario
    rng = random.Random(seed * 17 + 3)
    n = 5 if tier == "quick" else 30
    y = dict(yvals=(0, 1, 3), ymeasures=("mean", "stddev"), valid_counts=True, weights=(1, 2))
    base = [
        scenario("cat_x_cat", [cat("A", 3, miss=[2]), cat("B", 4, miss=[4])], weighted=False),
        scenario("cat_x_cat.w", [cat("A", 2), cat("B", 3)]),
        scenario("cat_x_cat.sq", [cat("A", 2), cat("B", 3)], squared_weights=True),
        scenario("mr_x_cat.sq", [mr("A", 2), cat("B", 3)], squared_weights=True),
        scenario("cat_x_mr", [cat("A", 2), mr("B", 3)], weighted=False),
        scenario("cat_x_cat_y", [cat("A", 2), cat("B", 3)], **y),
        scenario("mr_x_cat_y", [mr("A", 2), cat("B", 3)], **y),
        scenario("cat_x_mr.ov", [cat("A", 3, miss=[2]), mr("B", 3)], overlaps=True, weighted=False),
        scenario("cat_x_mr.ovw", [cat("A", 2), mr("B", 2)], overlaps=True),
        scenario("mr_x_mr.ov", [mr("A", 2), mr("B", 2)], overlaps=True, weighted=False),
        scenario("cat_x_cat_x_cat.sq", [cat("T", 3, miss=[1]), cat("A", 2), cat("B", 3)],
                 squared_weights=True),
    ]
    base += C.fractional([base[1], base[2], base[3], base[8]])
    pws = [None, {"alpha": [0.05, 0.1], "only_larger": False}, {"alpha": [0.01]},
           {"alpha": [0.2, 0.05], "only_larger": True}, {"alpha": [0.5], "only_larger": False}]
    scns = []
    for i, s in enumerate(base):
        s = dict(s)
        rd, cd = s["dims"][-2:]
        cfgs = [configs.DEFAULT]
        cfgs += configs.insertion_configs(rd, cd, n, seed * 83 + i, max_ins=1)
        cfgs += configs.order_configs(rd, cd, n, seed * 89 + i)
        out = []
        for c in cfgs:
            c = dict(c)
            pw = rng.choice(pws)
            if pw:
                c["pairwise"] = pw
            out.append(c)
        s["configs"] = out
        scns.append(s)
    # squared weights on a response whose weighted counts EQUAL its unweighted counts cell for
    # cell (weights of 1/2 and 3/2 in pairs): the library then regards the cube as unweighted,
    # but the effective base (sum w)^2 / sum w^2 still differs from N.  Every bag of <= 6
    # respondents (quick: <= 5 + the balanced bags by simulation would be too rare).
    bal = C.fractional([scenario("cat2_x_cat2.sq.bal", [cat("A", 2), cat("B", 2)],
                                 squared_weights=True)], wden=2, weights=(1, 3))
    bal_jobs = _value_jobs("C13", "c13", bal, tier, seed, single_pass=True,
                           invariants=("EmitInv", "ThmPwAntisym"),
                           bfs_budget=3100, sim_budget=50, sim_extra=1)
    return dict(
        jobs=bal_jobs + _value_jobs("C13", "c13", scns, tier, seed, single_pass=True,
                         invariants=("EmitInv", "ThmPwAntisym"),
                         bfs_budget=700 if tier == "quick" else 8000,
                         sim_budget=300 if tier == "quick" else 5000, sim_extra=2,
                         power=((1, 3, 8), 30, 6, 12 if tier == "quick" else 150)),
        rule="CAT and MR columns, unweighted / weighted without / with squared weights, mean "
             "responses (Welch); subtotal and difference columns and rows as selected or "
             "compared column; alpha pairs and only-larger flag; column order / hide transforms; x "
             "TLC-enumerated bags; t by sign and square of a formal quotient, p by the Student-t "
             "tail, index sets by the stated rule on the spec's statistics; antisymmetry and "
             "t(a,a)=0 checked by TLC as a spec theorem in every state",
        assumptions=ASSUME_COMMON + ["Student-t tail evaluated with scipy.stats.t (the library's "
                                     "own dependency); p within 1e-9 of alpha accepted either way"],
        feature_floor=("weights_differ", "pairwise_index_set_nonempty", "pairwise_p_below_0.05"),
    )


def c06(tier, seed):
    import time
    import runner
    from scenarios import cat, mr, caitems, cacat, scenario
    y = dict(yvals=(0, 1, 3), ymeasures=("mean", "sum"), valid_counts=True)
    scns = [
        scenario("cat_x_cat_x_cat", [cat("T", 3, miss=[2]), cat("A", 2), cat("B", 3, miss=[3])]),
        scenario("cat_x_cat_x_cat.sq", [cat("T", 3, miss=[1]), cat("A", 3), cat("B", 3)]),
        scenario("cat_x_cat_x_cat.tml", [cat("T", 3, miss=[3]), cat("A", 2), cat("B", 2)]),
        scenario("mr_x_cat_x_cat", [mr("T", 2), cat("A", 2), cat("B", 2)]),
        scenario("mr_x_mr_x_cat", [mr("T", 2), mr("A", 2), cat("B", 2)]),
        scenario("mr_x_cat_x_mr", [mr("T", 2), cat("A", 2), mr("B", 2)]),
        scenario("mr_x_mr_x_mr", [mr("T", 2), mr("A", 2), mr("B", 2)]),
        scenario("cat_x_mr_x_cat", [cat("T", 3, miss=[1]), mr("A", 2), cat("B", 2)]),
        scenario("cat_x_cat_x_mr", [cat("T", 3, miss=[2]), cat("A", 2), mr("B", 2)]),
        scenario("cat_x_mr_x_mr", [cat("T", 2), mr("A", 2), mr("B", 2)]),
        scenario("casub_x_cacat_x_cat", [caitems("A", 2), cacat("A", 3, miss=[2]), cat("B", 2)]),
        scenario("casub_x_cacat_x_mr", [caitems("A", 2), cacat("A", 2), mr("B", 2)]),
        scenario("cat_x_casub_x_cacat", [cat("T", 3, miss=[2]), caitems("A", 2), cacat("A", 2)]),
        scenario("mr_x_casub_x_cacat", [mr("T", 2), caitems("A", 2), cacat("A", 2)]),
        scenario("cacat_x_mr_x_casub", [cacat("A", 3, miss=[2]), mr("B", 2), caitems("A", 2)]),
        scenario("cacat_x_cat_x_casub", [cacat("A", 3, miss=[1]), cat("B", 2), caitems("A", 2)]),
        scenario("catdate_x_cat_x_cat", [cat("T", 2, date=True), cat("A", 2), cat("B", 2)]),
        # table dimensions that are not plain categorical, with a missing element before a
        # valid one (the raw offset of a table element differs from its valid position)
        scenario("catdate_x_cat_x_cat.tm", [cat("T", 3, miss=[2], date=True), cat("A", 2), cat("B", 2)]),
        scenario("text_x_cat_x_cat.tm1", [cat("T", 3, miss=[1], subtype="text"), cat("A", 2), cat("B", 2)]),
        scenario("cat_x_cat_x_cat_y", [cat("T", 3, miss=[2]), cat("A", 2), cat("B", 2)], **y),
        scenario("mr_x_cat_x_cat_y", [mr("T", 2), cat("A", 2), cat("B", 2)], **y),
        scenario("cat_x_cat_x_cat.u", [cat("T", 2), cat("A", 2), cat("B", 2)], weighted=False),
    ]
    yall = dict(y, ymeasures=("mean", "sum", "stddev", "median"))
    scns.append(scenario("cat_x_mr_x_cat_y", [cat("T", 2), mr("A", 2), cat("B", 2)], **yall))
    scns.append(scenario("cat_x_cat_x_mr_y", [cat("T", 3, miss=[1]), cat("A", 2), mr("B", 2)], **yall))
    jobs = _value_jobs("C06", "c06", scns, tier, seed, check_table_name=True,
                       bfs_budget=220 if tier == "quick" else 8000,
                       sim_budget=160 if tier == "quick" else 5000)
    # the pairwise tests of each partition (squared weights are sliced per table element too)
    jobs += _value_jobs("C06", "c13",
                        [scenario("cat_x_cat_x_cat.sq", [cat("T", 3, miss=[1]), cat("A", 2), cat("B", 3)],
                                  squared_weights=True),
                         scenario("mr_x_cat_x_cat.sq", [mr("T", 2), cat("A", 2), cat("B", 2)],
                                  squared_weights=True)],
                        tier, seed, single_pass=True,
                        bfs_budget=150 if tier == "quick" else 3000,
                        sim_budget=100 if tier == "quick" else 2000, sim_extra=2)

    def custom(tier_, seed_, t0):
        import multicube
        from runner import Mismatch
        results = runner.run_jobs(jobs)
        problems, evals, gen, err = multicube.run_multicube(tier_, seed_)
        mc = {"scn": "multicube", "mode": "sim", "records": 0, "distinct": evals,
              "tlc_distinct": 0, "generated": gen, "evaluations": evals, "nontrivial": evals,
              "features": {"multicube_comparisons": evals}, "samples": [],
              "mismatches": [{"mismatch": Mismatch("C06", None, text, {}, tags=tags).to_dict(),
                              "record": {}, "job": {"scn": {"name": "multicube"}}}
                             for text, tags in problems[:40]],
              "error": err, "wall_s": 0}
        return runner.finish(
            "C06", tier_, seed_, "model_checking", results + [mc], t0,
            rule="3-D responses with every table-dimension type (categorical with the missing "
                 "category first / middle / last, categorical-date, MR, CA items, CA categories) "
                 "over every rows x columns pairing x TLC-enumerated bags: every partition's "
                 "counts, bases, margins, proportions, errors, residuals, column index and "
                 "table_name against the respondent-level meaning restricted to the table "
                 "element; plus CubeSet families (tabbook, CA-as-0th, numeric-measure rows as "
                 "dict and as JSON text) built from spec-emitted member responses",
            assumptions=ASSUME_COMMON + ["member cubes of a set are independent spec-emitted "
                                         "states (the library does not relate their data)"],
            feature_floor=("weights_differ", "multicube_comparisons"))

    return dict(custom=custom)


def c18(tier, seed):
    import session
    return dict(custom=session.run_check)


def c19(tier, seed):
    import elementref
    return dict(custom=elementref.run_check)


PROPS = {"C06": c06, "C18": c18, "C19": c19, "C13": c13, "C10": c10, "C20": c20, "C05": c05, "C08": c08, "C07": c07, "C09": c09, "C15": c15, "C16": c16, "C17": c17, "C14": c14, "C12": c12, "C01": c01, "C02": c02, "C03": c03, "C04": c04, "C11": c11}
