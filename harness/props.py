"""Per-property check definitions: which scenarios, which spec family, which replayer."""
import catalogue as C
from runner import make_job

MODEL_CHECKING = "model_checking"

ASSUME_COMMON = [
    "TLC 1.8.0 evaluates the TLA+ text in /verif/spec correctly",
    "harness/envelope.py places the spec's tensors into the response envelope without "
    "computing anything",
    "small scope: the bags of respondents, dimension sizes and weights enumerated are "
    "representative",
    "float vs rational comparison with relative tolerance 1e-9",
]


def _value_jobs(prop_id, family, scns, tier, seed, **kw):
    import scenarios as S
    jobs = []
    bfs_budget, sim_budget = (800, 500) if tier == "quick" else (30000, 20000)
    bfs_budget = kw.pop("bfs_budget", bfs_budget)
    sim_extra = kw.pop("sim_extra", 3)
    sim_budget = kw.pop("sim_budget", sim_budget)
    for s in scns:
        s = dict(s)
        ncfg = len(s.get("configs") or [1])
        s["max_resp"] = S.bfs_bound(s, max(2, bfs_budget // ncfg))
        jobs.append(make_job(s, family, ("replay_basic", "replay"), mode="bfs",
                             prop_id=prop_id, **kw))
        depth = s["max_resp"] + sim_extra
        num = max(1, sim_budget // depth)
        jobs.append(make_job(s, family, ("replay_basic", "replay"), mode="sim", seed=seed,
                             sim_num=num, sim_depth=depth + 1, sim_max_resp=depth,
                             prop_id=prop_id, timeout=120 if tier == "quick" else 1500, **kw))
    # biggest first so the pool finishes evenly
    jobs.sort(key=lambda j: -(j["sim_num"] * 1000 if j["mode"] == "sim" else S.n_bags(S.n_keys(j["scn"]), j["scn"]["max_resp"])))
    return jobs


def c01(tier, seed):
    scns = (C.pairings_2d() + C.strands() + C.cubes_3d() + C.numeric_measures()
            + C.numeric_arrays())
    scns = scns + C.unweighted(C.pairings_2d()[:4] + C.strands()[:2] + C.cubes_3d()[:2])
    return dict(
        jobs=_value_jobs("C01", "c01", scns, tier, seed),
        rule="TLC enumerates every bag of <= N respondents (BFS) and random larger bags "
             "(simulation) per scenario; one case = one distinct survey state replayed into "
             "Cube; non-trivial = at least one respondent",
        assumptions=ASSUME_COMMON,
        feature_floor=("weights_differ",),
    )


def c02(tier, seed):
    scns = C.pairings_2d() + C.strands() + C.cubes_3d() + C.numeric_arrays()[:2]
    scns = scns + C.unweighted(C.pairings_2d()[:4] + C.strands()[:2])
    return dict(
        jobs=_value_jobs("C02", "c02", scns, tier, seed),
        rule="as C01; bases, margins, ranges and min-base mask compared per state",
        assumptions=ASSUME_COMMON,
        feature_floor=("weights_differ",),
    )


def c03(tier, seed):
    scns = C.pairings_2d() + C.strands() + C.cubes_3d()
    scns = scns + C.unweighted(C.pairings_2d()[:4] + C.strands()[:2])
    return dict(
        jobs=_value_jobs("C03", "c03", scns, tier, seed, report_warnings=True),
        rule="as C01; proportions, percentages and margin proportions compared per state, "
             "warnings the library lets escape are reported as DRIFT",
        assumptions=ASSUME_COMMON,
        feature_floor=("empty_data", "weights_differ"),
    )


def _with_insertions(scns, n, seed, **kw):
    import configs
    import envelope
    out = []
    for i, s in enumerate(scns):
        s = dict(s)
        ri, ci = envelope.slice_dim_indexes(s["dims"])
        rd = s["dims"][ri]
        cd = s["dims"][ci] if ci is not None else None
        s["configs"] = configs.insertion_configs(rd, cd, n, seed * 1000 + i, **kw)
        out.append(s)
    return out


def c04(tier, seed):
    from scenarios import cat, mr, caitems, cacat, scenario
    n = 12 if tier == "quick" else 60
    y = dict(yvals=(0, 1, 3), ymeasures=("mean", "sum"), valid_counts=True)
    scns = [
        scenario("cat_x_cat", [cat("A", 4, miss=[2]), cat("B", 4, miss=[4])]),
        scenario("cat_x_mr", [cat("A", 4, miss=[3]), mr("B", 2)]),
        scenario("mr_x_cat", [mr("A", 2), cat("B", 4, miss=[1])]),
        scenario("catdate_x_cat", [cat("A", 4, miss=[4], date=True), cat("B", 3)]),
        scenario("cat_x_catdate", [cat("A", 3), cat("B", 4, miss=[1], date=True)]),
        scenario("casub_x_cacat", [caitems("A", 2), cacat("A", 4, miss=[2])]),
        scenario("cacat_x_casub", [cacat("A", 4, miss=[3]), caitems("A", 2)]),
        scenario("cat_1d", [cat("A", 4, miss=[2])]),
        scenario("catdate_1d", [cat("A", 4, miss=[1], date=True)]),
        scenario("cat_x_cat_x_cat", [cat("T", 2), cat("A", 3), cat("B", 3, miss=[2])]),
        scenario("cat_x_cat_y", [cat("A", 3), cat("B", 3, miss=[2])], **y),
        scenario("cat_1d_y", [cat("A", 4, miss=[3])], **y),
        scenario("cat_x_cat.u", [cat("A", 4, miss=[2]), cat("B", 3)], weighted=False),
    ]
    scns = _with_insertions(scns, n, seed)
    return dict(
        jobs=_value_jobs("C04", "c04", scns, tier, seed),
        rule="per scenario a seeded sample of insertion configurations (addend/subtrahend "
             "sets over valid, missing and stale ids; any anchor; view or transforms) x every "
             "bag of <= N respondents (BFS) and random larger bags; non-trivial = at least one "
             "respondent",
        assumptions=ASSUME_COMMON + ["insertion configurations are sampled by the harness "
                                     "(syntax only); their meaning is Insertions.tla/Collate.tla"],
        feature_floor=("weights_differ",),
    )


def _insertion_scns(tier, seed, extra=()):
    from scenarios import cat, mr, caitems, cacat, scenario
    n = 8 if tier == "quick" else 40
    scns = [
        scenario("cat_x_cat", [cat("A", 4, miss=[2]), cat("B", 3, miss=[3])]),
        scenario("cat_x_mr", [cat("A", 4, miss=[3]), mr("B", 2)]),
        scenario("mr_x_cat", [mr("A", 2), cat("B", 4, miss=[1])]),
        scenario("catdate_x_cat", [cat("A", 3, date=True), cat("B", 3)]),
        scenario("casub_x_cacat", [caitems("A", 2), cacat("A", 3)]),
        scenario("cat_1d", [cat("A", 4, miss=[2])]),
        scenario("cat_x_cat.u", [cat("A", 3), cat("B", 3)], weighted=False),
    ] + list(extra)
    return _with_insertions(scns, n, seed)


def c11(tier, seed):
    scns = C.pairings_2d()[:8] + C.strands()[:2] + C.cubes_3d()[:4] + C.unweighted(C.pairings_2d()[:2])
    scns = scns + [dict(s, name=s["name"] + ".ins") for s in _insertion_scns(tier, seed)]
    return dict(
        jobs=_value_jobs("C11", "c11", scns, tier, seed),
        rule="as C04: plain scenarios plus seeded insertion configurations (subtotals, "
             "differences, intersections) x TLC-enumerated bags; variances compared as "
             "rationals, std-dev / std-err / MoE by square and sign",
        assumptions=ASSUME_COMMON,
        feature_floor=("weights_differ", "ins_rows", "diff_rows", "intersection"),
    )


def c12(tier, seed):
    from scenarios import cat, scenario
    scns = C.pairings_2d()[:8] + C.cubes_3d()[:5] + C.unweighted(C.pairings_2d()[:2])
    scns.append(scenario("cat2_x_cat2", [cat("A", 3, miss=[2]), cat("B", 2)], max_resp=3))
    scns = scns + [dict(s, name=s["name"] + ".ins") for s in _insertion_scns(tier, seed)
                   if len(s["dims"]) > 1]
    return dict(
        jobs=_value_jobs("C12", "c12", scns, tier, seed,
                         invariants=("EmitInv", "ThmZ2IsChiSq"), sim_extra=3),
        rule="as C04 (plain + insertion configurations) x TLC-enumerated bags, so that "
             "degenerate tables (single row/column, proportional rows, empty margins) occur; "
             "z by sign and square, p against the two-sided normal tail of the spec's Z2; "
             "spec theorem Z2 = chi-square on 2x2 checked by TLC in every state",
        assumptions=ASSUME_COMMON + ["normal tail evaluated with math.erfc (tolerance 1e-9)"],
        feature_floor=("weights_differ", "ins_rows"),
    )


PROPS = {"C12": c12, "C01": c01, "C02": c02, "C03": c03, "C04": c04, "C11": c11}
