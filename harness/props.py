"""Per-property check definitions: which scenarios, which spec family, which replayer."""
import catalogue as C
from runner import make_job

MODEL_CHECKING = "model_checking"

ASSUME_COMMON = [
    "TLC 1.8.0 evaluates the TLA+ text in /verif/spec correctly",
    "harness/envelope.py places the spec's tensors into the response envelope without "
    "computing anything",
    "small scope: the bags of respondents, dimension sizes and weights enumerated are "
    "representative",
    "float vs rational comparison with relative tolerance 1e-9",
]


def _value_jobs(prop_id, family, scns, tier, seed, **kw):
    import scenarios as S
    jobs = []
    bfs_budget, sim_budget = (800, 500) if tier == "quick" else (30000, 20000)
    bfs_budget = kw.pop("bfs_budget", bfs_budget)
    sim_budget = kw.pop("sim_budget", sim_budget)
    for s in scns:
        s = dict(s)
        s["max_resp"] = S.bfs_bound(s, bfs_budget)
        jobs.append(make_job(s, family, ("replay_basic", "replay"), mode="bfs",
                             prop_id=prop_id, **kw))
        depth = s["max_resp"] + 3
        num = max(1, sim_budget // depth)
        jobs.append(make_job(s, family, ("replay_basic", "replay"), mode="sim", seed=seed,
                             sim_num=num, sim_depth=depth + 1, sim_max_resp=depth,
                             prop_id=prop_id, timeout=120 if tier == "quick" else 1500, **kw))
    # biggest first so the pool finishes evenly
    jobs.sort(key=lambda j: -(j["sim_num"] * 1000 if j["mode"] == "sim" else S.n_bags(S.n_keys(j["scn"]), j["scn"]["max_resp"])))
    return jobs


def c01(tier, seed):
    scns = (C.pairings_2d() + C.strands() + C.cubes_3d() + C.numeric_measures()
            + C.numeric_arrays())
    scns = scns + C.unweighted(C.pairings_2d()[:4] + C.strands()[:2] + C.cubes_3d()[:2])
    return dict(
        jobs=_value_jobs("C01", "c01", scns, tier, seed),
        rule="TLC enumerates every bag of <= N respondents (BFS) and random larger bags "
             "(simulation) per scenario; one case = one distinct survey state replayed into "
             "Cube; non-trivial = at least one respondent",
        assumptions=ASSUME_COMMON,
        feature_floor=("weights_differ",),
    )


def c02(tier, seed):
    scns = C.pairings_2d() + C.strands() + C.cubes_3d() + C.numeric_arrays()[:2]
    scns = scns + C.unweighted(C.pairings_2d()[:4] + C.strands()[:2])
    return dict(
        jobs=_value_jobs("C02", "c02", scns, tier, seed),
        rule="as C01; bases, margins, ranges and min-base mask compared per state",
        assumptions=ASSUME_COMMON,
        feature_floor=("weights_differ",),
    )


def c03(tier, seed):
    scns = C.pairings_2d() + C.strands() + C.cubes_3d()
    scns = scns + C.unweighted(C.pairings_2d()[:4] + C.strands()[:2])
    return dict(
        jobs=_value_jobs("C03", "c03", scns, tier, seed, report_warnings=True),
        rule="as C01; proportions, percentages and margin proportions compared per state, "
             "warnings the library lets escape are reported as DRIFT",
        assumptions=ASSUME_COMMON,
        feature_floor=("empty_data", "weights_differ"),
    )


PROPS = {"C01": c01, "C02": c02, "C03": c03}
