#!/venv/bin/python
"""C18 helper: evaluate every public property of every partition of the cubes / cube sets
described in a JSON file and print one JSON document.  Run by session.py in several
processes with different PYTHONHASHSEED values: the documents must be identical."""
import json
import os
import sys

HERE = os.path.dirname(os.path.abspath(__file__))
sys.path.insert(0, HERE)
REPO_SRC = os.environ.get("VERIF_REPO_SRC", "/repo/src")
sys.path.insert(0, REPO_SRC)
if os.path.abspath(REPO_SRC) != "/repo/src":
    import cr
    cr.__path__.insert(0, os.path.join(REPO_SRC, "cr"))

import warnings  # noqa: E402

import numpy as np  # noqa: E402


def plain(x):
    if isinstance(x, np.ma.MaskedArray):
        x = x.filled(np.nan)
    if isinstance(x, np.ndarray):
        x = x.tolist()
    if isinstance(x, np.generic):
        x = x.item()
    if isinstance(x, (list, tuple)):
        return [plain(v) for v in x]
    if isinstance(x, float):
        return "nan" if x != x else repr(x)
    if isinstance(x, (int, str, bool)) or x is None:
        return x
    return "<%s>" % type(x).__name__


def main():
    warnings.simplefilter("ignore")
    import relation
    from cr.cube.cube import Cube, CubeSet
    cases = json.load(open(sys.argv[1]))
    out = []
    for case in cases:
        if case["kind"] == "cube":
            parts = Cube(case["response"], transforms=case["transforms"],
                         population=case.get("population")).partitions
        else:
            cs = CubeSet(case["responses"], case["transforms"], None, 0)
            parts = [p for ps in cs.partition_sets for p in ps]
        doc = []
        for p in parts:
            vals = {}
            for name in relation.public_props(p, skip=()):
                try:
                    vals[name] = plain(getattr(p, name))
                except Exception as e:  # noqa
                    vals[name] = "raise " + type(e).__name__
            doc.append(vals)
        out.append(doc)
    json.dump(out, sys.stdout, sort_keys=True)


if __name__ == "__main__":
    main()
