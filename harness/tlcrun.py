"""Run TLC on a generated MC module and stream the JSON lines it emits.

The spec prints one line per distinct state with PrintT(ToJson(..)); TLC shows a
TLA+ string literal, whose escapes coincide with JSON's, so each line decodes with two
json.loads.  Everything else on stdout is TLC chatter, from which the state counts and
errors are taken.
"""
import json
import os
import re
import shutil
import subprocess
import tempfile

SPEC_DIR = os.path.join(os.path.dirname(os.path.dirname(os.path.abspath(__file__))), "spec")
SCRATCH_ROOT = os.environ.get("VERIF_SCRATCH", "/var/tmp")
TLA_CP = "/opt/veriftools/tla/tla2tools.jar:/opt/veriftools/tla/CommunityModules-deps.jar"

_STATS = re.compile(r"(\d+) states generated, (\d+) distinct states found")
_SIMSTATS = re.compile(r"The number of states generated: (\d+)")


class TLCError(Exception):
    pass


def tla_value(x):
    """Render a Python value as a TLA+ expression."""
    if x is None:
        return "NA"
    if isinstance(x, bool):
        return "TRUE" if x else "FALSE"
    if isinstance(x, int):
        return str(x)
    if isinstance(x, str):
        return json.dumps(x)
    if isinstance(x, (set, frozenset)):
        return "{" + ", ".join(tla_value(v) for v in sorted(x, key=repr)) + "}"
    if isinstance(x, (list, tuple)):
        return "<<" + ", ".join(tla_value(v) for v in x) + ">>"
    if isinstance(x, dict):
        if not x:
            return "[x \\in {} |-> 0]"
        return "[" + ", ".join("%s |-> %s" % (k, tla_value(v)) for k, v in x.items()) + "]"
    raise TypeError("cannot render %r" % (x,))


class TLCRun:
    """One TLC process; iterate over it to get decoded emission records."""

    def __init__(self, name, root_module, defs, cfg_lines, mode="bfs", sim_num=0,
                 sim_depth=8, seed=0, workers=1, extra_modules=(), timeout=None):
        self.name = name
        self.dir = tempfile.mkdtemp(prefix="verif.%d." % os.getpid(), dir=SCRATCH_ROOT)
        spec_dir = os.environ.get("VERIF_SPEC_SNAPSHOT") or SPEC_DIR
        for f in os.listdir(spec_dir):
            if f.endswith(".tla"):
                shutil.copy(os.path.join(spec_dir, f), self.dir)
        mc = "MC_" + re.sub(r"[^A-Za-z0-9_]", "_", name)
        self.mc = mc
        with open(os.path.join(self.dir, mc + ".tla"), "w") as f:
            f.write("---- MODULE %s ----\nEXTENDS %s\n" % (mc, root_module))
            for k, v in defs.items():
                f.write("%s == %s\n" % (k, v))
            f.write("====\n")
        with open(os.path.join(self.dir, mc + ".cfg"), "w") as f:
            f.write("\n".join(cfg_lines) + "\n")
        cmd = ["java", "-XX:+UseSerialGC", "-Xmx3g", "-Xss16m", "-cp", TLA_CP, "tlc2.TLC",
               "-workers", str(workers), "-metadir", os.path.join(self.dir, "meta"),
               "-noGenerateSpecTE"]
        if mode == "sim":
            cmd += ["-simulate", "num=%d" % sim_num, "-depth", str(sim_depth),
                    "-seed", str(seed)]
        elif seed:
            cmd += ["-seed", str(seed)]     # seeds RandomSubset / RandomElement in BFS mode
        cmd += [mc + ".tla"]
        if timeout:
            cmd = ["timeout", str(int(timeout))] + cmd
        self.cmd = cmd
        self.mode = mode
        self.generated = 0
        self.distinct = 0
        self.chatter = []
        self.err_head = []      # the first "Error:" paragraph (the chatter tail is a state dump)
        self._err_left = None
        self.error = None
        self.proc = None

    def __iter__(self):
        env = dict(os.environ)
        self.proc = subprocess.Popen(self.cmd, cwd=self.dir, stdout=subprocess.PIPE,
                                     stderr=subprocess.STDOUT, text=True, env=env,
                                     bufsize=1 << 20)
        try:
            for line in self.proc.stdout:
                if line.startswith('"'):
                    try:
                        yield json.loads(json.loads(line))
                    except ValueError as e:
                        if not line.endswith("\n"):
                            # the last line of a process that was stopped (time limit of a
                            # simulation run): incomplete, not an emission
                            break
                        self.error = "undecodable emission line: %s (%r)" % (e, line[:200])
                        break
                else:
                    s = line.rstrip("\n")
                    if s:
                        self.chatter.append(s)
                        if s.startswith("Error:") and self._err_left is None:
                            self._err_left = 14
                        if self._err_left:
                            self._err_left -= 1
                            self.err_head.append(s[:400])
                        if len(self.chatter) > 400:
                            del self.chatter[:200]
                    m = _STATS.search(s)
                    if m:
                        self.generated, self.distinct = int(m.group(1)), int(m.group(2))
                    m = _SIMSTATS.search(s)
                    if m:
                        self.generated = int(m.group(1))
            rc = self.proc.wait()
        finally:
            if self.proc.poll() is None:
                self.proc.kill()
                self.proc.wait()
        text = "\n".join(self.chatter)
        if self.error is None:
            if rc == 124:
                # timeout: acceptable for simulation runs (bounded by time), an error for BFS
                if self.mode != "sim":
                    self.error = "TLC timed out"
            elif rc != 0 or "Error:" in text:
                self.error = "TLC exit %s: %s" % (rc, "\n".join(self.err_head) if self.err_head
                                                  else text[-1500:])

    def close(self):
        shutil.rmtree(self.dir, ignore_errors=True)
