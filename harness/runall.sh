#!/bin/bash
# usage: runall.sh <seed> [ids...]   -- run quick checks with the given seed, summarise
seed=$1; shift
ids="$@"
if [ -z "$ids" ]; then ids=$(python3 -c "import json; print(' '.join(c['property_id'] for c in json.load(open('/verif/MANIFEST.json'))['checks']))"); fi
cd /verif
for id in $ids; do
  VERIF_SEED=$seed ./check $id > /tmp/runall_${seed}_$id.txt 2>&1
  rc=$?
  echo "seed=$seed $id exit=$rc $(tail -1 /tmp/runall_${seed}_$id.txt | cut -c1-160)"
  if [ $rc -ne 0 ]; then grep -A1 "^VIOLATION" /tmp/runall_${seed}_$id.txt | grep -v "^VIOLATION\|^--" | cut -c1-300 | sort | uniq -c | sort -rn | head -5; fi
done
