"""Direction B for C05 (and the recording side of C10): evaluate the real library twice,
record both evaluations as a trace of interned values, and let TLC (TraceRelation.tla)
decide whether the recorded pair satisfies the relation the property states.

Nothing here knows what the relation is: this module only records what the library
returned (which property, which shape, which value token where) and the display orders the
library itself reported."""
import copy
import json
import math
import os
import re
import subprocess
import tempfile

import numpy as np

from cr.cube.cube import Cube
from cr.cube.util import lazyproperty

import configs
import envelope
from runner import Mismatch
from tlcrun import SCRATCH_ROOT, TLA_CP, SPEC_DIR

TRACE_SPEC_DIR = os.path.join(SPEC_DIR, "trace")

# position-valued outputs (lists of display positions)
ROWPOS = {"inserted_row_idxs", "diff_row_idxs", "derived_row_idxs"}
COLPOS = {"inserted_column_idxs", "diff_column_idxs", "derived_column_idxs"}
COLPOSMAT = {"pairwise_indices", "pairwise_indices_alt", "pairwise_means_indices",
             "pairwise_means_indices_alt"}
# 1-D outputs whose axis cannot be told from the name
COLPOSVEC = {"summary_pairwise_indices"}
SKIP = {"shape", "payload_order", "is_empty", "pairwise_significance_tests",
        "smoothed_column_index", "smoothed_column_percentages", "smoothed_column_proportions",
        "smoothed_columns_scale_mean", "smoothed_means", "row_count",
        "columns_scale_mean_pairwise_indices", "columns_scale_mean_pairwise_indices_alt"}
UNCHANGED = {"table_base_range", "table_margin_range", "dimension_types"}


def public_props(obj, skip=SKIP):
    out = []
    for name in dir(type(obj)):
        if name.startswith("_") or name in skip:
            continue
        if isinstance(getattr(type(obj), name, None), lazyproperty):
            out.append(name)
    return out


class Interner:
    """equal values get equal integer tokens.  Floats are equal when they agree to a
    relative 1e-9 (absolute 1e-12): the relation is about WHERE a value sits, and a
    refactoring of the library that re-associates a floating-point expression on one of the
    two code paths must not turn a re-indexed output into a different token."""
    REL, ABS = 1e-9, 1e-12

    def __init__(self):
        self.table = {}
        self.reps = []      # sorted float representatives
        self.rep_tok = {}   # representative -> token

    def _float_tok(self, x):
        import bisect
        key = repr(x)
        t = self.table.get(key)
        if t is not None:
            return t
        if math.isinf(x):
            return self.table.setdefault(key, len(self.table) + 1)
        i = bisect.bisect_left(self.reps, x)
        for j in (i - 1, i):
            if 0 <= j < len(self.reps):
                r = self.reps[j]
                if abs(r - x) <= max(self.ABS, self.REL * max(abs(r), abs(x))):
                    self.table[key] = self.rep_tok[r]
                    return self.rep_tok[r]
        t = self.table.setdefault(key, len(self.table) + 1)
        self.reps.insert(i, x)
        self.rep_tok[x] = t
        return t

    def tok(self, x):
        if isinstance(x, (np.floating, float)):
            x = float(x)
            if math.isnan(x):
                return self.table.setdefault("nan", len(self.table) + 1)
            return self._float_tok(x)
        elif isinstance(x, (np.integer, int)) and not isinstance(x, (bool, np.bool_)):
            return self._float_tok(float(int(x)))
        elif isinstance(x, (bool, np.bool_)):
            key = "b%d" % bool(x)
        elif x is None:
            key = "None"
        else:
            key = "s" + str(x)
        return self.table.setdefault(key, len(self.table) + 1)

    def nested(self, x):
        if isinstance(x, np.ma.MaskedArray):
            x = x.filled(np.nan)
        if isinstance(x, np.ndarray):
            x = x.tolist()
        if isinstance(x, (list, tuple)):
            return [self.nested(v) for v in x]
        return self.tok(x)


def axis_of(name, n, nrows, ncols, two_d):
    """which display axis a 1-D output of length n runs along, or None"""
    if not two_d:
        return "row" if n == nrows else None
    if re.match(r"^(rows?_)", name):
        return "row" if n == nrows else None
    if re.match(r"^(columns?_)", name):
        return "col" if n == ncols else None
    if nrows != ncols:
        return "row" if n == nrows else "col" if n == ncols else None
    return None


def strip_display(cfg):
    """the same analysis without ordering / hiding / pruning (insertions kept)"""
    c = copy.deepcopy(cfg)
    for side in ("rows", "cols"):
        c[side]["hide"] = []
        c[side]["prune"] = False
        c[side]["order"] = dict(configs.ORDER_DEFAULTS)
    return c


def _get(part, name):
    v = getattr(part, name)
    if name == "min_base_size_mask" and not isinstance(v, np.ndarray):
        return {"min_base_size_mask.row_mask": v.row_mask,
                "min_base_size_mask.column_mask": v.column_mask,
                "min_base_size_mask.table_mask": v.table_mask}
    return {name: v}


def record_pair(trace_id, base_part, xf_part, two_d):
    """-> (trace dict, list of (prop, message) for reads that raise only under transforms)"""
    it = Interner()
    rb = [int(x) for x in base_part.row_order()]
    rx = [int(x) for x in xf_part.row_order()]
    cb = [int(x) for x in base_part.column_order()] if two_d else []
    cx = [int(x) for x in xf_part.column_order()] if two_d else []
    ev = [{"op": "orders", "prop": "orders"}]
    problems = []
    nrows, ncols = len(rb), len(cb)
    for name in public_props(base_part):
        try:
            bvals = _get(base_part, name)
        except Exception:  # noqa  -- not available for this response (no such measure)
            continue
        try:
            xvals = _get(xf_part, name)
        except Exception as e:  # noqa
            problems.append((name, "raises %r only under the display transforms" % (e,)))
            continue
        for key, b in bvals.items():
            x = xvals[key]
            if (isinstance(b, tuple) and isinstance(x, tuple) and key not in ROWPOS | COLPOS
                    and key not in UNCHANGED):
                # tuples of per-element attributes (fills, ...) are 1-D outputs
                b = np.array(list(b), dtype=object)
                x = np.array(list(x), dtype=object)
            if isinstance(b, np.ma.MaskedArray):
                b = b.filled(np.nan)
            if isinstance(x, np.ma.MaskedArray):
                x = x.filled(np.nan)
            if b is None or x is None:
                ev.append({"op": "scalar", "prop": key, "base": it.tok(b is None),
                           "xf": it.tok(x is None)})
            elif key in ROWPOS:
                ev.append({"op": "rowpos", "prop": key, "base": [int(v) for v in b],
                           "xf": [int(v) for v in x]})
            elif key in COLPOS:
                ev.append({"op": "colpos", "prop": key, "base": [int(v) for v in b],
                           "xf": [int(v) for v in x]})
            elif key in COLPOSVEC:
                ev.append({"op": "colposvec", "prop": key,
                           "base": [[int(c) for c in cell] for cell in b],
                           "xf": [[int(c) for c in cell] for cell in x]})
            elif key in COLPOSMAT:
                ev.append({"op": "colposmat", "prop": key,
                           "base": [[[int(c) for c in cell] for cell in row] for row in b],
                           "xf": [[[int(c) for c in cell] for cell in row] for row in x]})
            elif isinstance(b, np.ndarray) and b.ndim == 3:
                # a stack of matrices (residual_test_stats): each layer is re-indexed
                if not (isinstance(x, np.ndarray) and x.ndim == 3 and len(x) == len(b)):
                    problems.append((key, "is a 3-D stack untransformed but not transformed"))
                    continue
                for layer in range(len(b)):
                    ev.append({"op": "mat", "prop": "%s[%d]" % (key, layer),
                               "base": it.nested(b[layer]), "xf": it.nested(x[layer])})
            elif isinstance(b, np.ndarray) and b.ndim == 2 and key not in UNCHANGED:
                if not (isinstance(x, np.ndarray) and x.ndim == 2):
                    problems.append((key, "is 2-D untransformed but %r transformed" % (type(x),)))
                    continue
                ev.append({"op": "mat", "prop": key, "base": it.nested(b), "xf": it.nested(x)})
            elif isinstance(b, np.ndarray) and b.ndim == 1 and key not in UNCHANGED:
                ax = axis_of(key, len(b), nrows, ncols, two_d)
                if ax is None:
                    continue
                ev.append({"op": "rowvec" if ax == "row" else "colvec", "prop": key,
                           "base": it.nested(b), "xf": it.nested(np.asarray(x))})
            elif isinstance(b, (np.ndarray, list, tuple)):
                ev.append({"op": "scalar", "prop": key,
                           "base": it.tok(json.dumps(it.nested(b))),
                           "xf": it.tok(json.dumps(it.nested(x)))})
            elif isinstance(b, (int, float, str, bool, type(None), np.generic)):
                ev.append({"op": "scalar", "prop": key, "base": it.tok(b), "xf": it.tok(x)})
    return ({"id": trace_id, "rel": "reindex", "rb": rb, "cb": cb, "rx": rx, "cx": cx,
             "ev": ev}, problems)


def validate(traces, spec="TraceRelation", max_bytes=8 << 20):
    """run TLC on a batch of traces -> (accepted ids, {id: (event index, prop)}, error);
    a batch whose JSON would not fit TLC's heap is validated in several TLC runs"""
    sizes = [len(json.dumps(t)) for t in traces]
    if sum(sizes) > max_bytes and len(traces) > 1:
        acc, rej, err = set(), {}, None
        chunk, n = [], 0
        for t, sz in zip(traces, sizes):
            if chunk and n + sz > max_bytes:
                a, r, e = _validate_one(chunk, spec)
                acc |= a
                rej.update(r)
                err = err or e
                chunk, n = [], 0
            chunk.append(t)
            n += sz
        if chunk:
            a, r, e = _validate_one(chunk, spec)
            acc |= a
            rej.update(r)
            err = err or e
        return acc, rej, err
    return _validate_one(traces, spec)


def _validate_one(traces, spec):
    d = tempfile.mkdtemp(prefix="verif.trace.%d." % os.getpid(), dir=SCRATCH_ROOT)
    try:
        for f in os.listdir(TRACE_SPEC_DIR):
            if f.startswith(spec + "."):
                with open(os.path.join(TRACE_SPEC_DIR, f)) as src, \
                        open(os.path.join(d, f), "w") as dst:
                    dst.write(src.read())
        tf = os.path.join(d, "traces.json")
        with open(tf, "w") as f:
            json.dump(traces, f)
        env = dict(os.environ, TRACE_FILE=tf)
        r = subprocess.run(["java", "-XX:+UseSerialGC", "-Xmx3g", "-cp", TLA_CP, "tlc2.TLC",
                            "-workers", "1", "-metadir", os.path.join(d, "meta"),
                            "-noGenerateSpecTE", spec + ".tla"],
                           cwd=d, env=env, capture_output=True, text=True)
        acc, rej = set(), {}
        for line in r.stdout.splitlines():
            m = re.match(r'<<"ACCEPT", (\d+)>>', line)
            if m:
                acc.add(int(m.group(1)))
            m = re.match(r'<<"REJECT", (\d+), (\d+), "([^"]*)">>', line)
            if m:
                rej[int(m.group(1))] = (int(m.group(2)), m.group(3))
        ok = r.returncode == 0 and "Error:" not in r.stdout
        if ok:
            return acc, rej, None
        at = r.stdout.find("Error:")
        return acc, rej, (r.stdout[at:at + 1500] if at >= 0 else r.stdout[-1500:])
    finally:
        import shutil
        shutil.rmtree(d, ignore_errors=True)


# --------------------------------------------------------------------- C05 replayer
_STATE = {}


def replay(job, rec):
    """record (untransformed, transformed) pairs for every partition of one emitted state"""
    scn = job["scn"]
    prop_id = job["prop_id"]
    st = _STATE.setdefault(job["scn"]["name"] + job["mode"], {"traces": [], "meta": {}, "n": 0})
    cfg = scn["configs"][rec.get("ci", 1) - 1]
    base_cfg = strip_display(cfg)
    resp_x = envelope.build_response(scn, rec, cfg)
    resp_b = envelope.build_response(scn, rec, base_cfg)
    mism = []
    two_d = len(scn["dims"]) >= 2
    try:
        parts_x = Cube(resp_x, transforms=configs.transforms_dict(cfg),
                       population=scn.get("population"), mask_size=scn["min_base"]).partitions
        parts_b = Cube(resp_b, transforms=configs.transforms_dict(base_cfg),
                       population=scn.get("population"), mask_size=scn["min_base"]).partitions
    except Exception as e:  # noqa
        mism.append(Mismatch(prop_id, None, "constructing partitions raised %r" % (e,), {},
                             tags={"prop": "<construct>", "raises": type(e).__name__}))
        return {"evaluations": 1, "mismatches": mism, "nontrivial": True, "features": []}
    evals = 0
    feats = []
    for k, (pb, px) in enumerate(zip(parts_b, parts_x)):
        st["n"] += 1
        tid = st["n"]
        try:
            tr, problems = record_pair(tid, pb, px, two_d)
        except Exception as e:  # noqa
            mism.append(Mismatch(prop_id, None, "reading the display order raised %r" % (e,), {},
                                 tags={"prop": "row_order", "raises": type(e).__name__}))
            continue
        for name, msg in problems:
            mism.append(Mismatch(prop_id, None, "%s %s" % (name, msg), {"partition": k},
                                 tags={"prop": name, "raises_under_transform": True,
                                       "xf_rows": min(len(tr["rx"]), 1),
                                       "xf_cols": min(len(tr["cx"]), 1)}))
        # the reported display order is what every output was re-indexed by: it must still be
        # the same after all of them were read
        for side, part in (("base", pb), ("transformed", px)):
            try:
                again = ([int(v) for v in part.row_order()],
                         [int(v) for v in part.column_order()] if two_d else [])
            except Exception as e:  # noqa
                again = ("raise", repr(e))
            first = ((tr["rb"], tr["cb"]) if side == "base" else (tr["rx"], tr["cx"]))
            if again != (list(first[0]), list(first[1])):
                mism.append(Mismatch(prop_id, None,
                                     "the display order the %s run reports changed after its "
                                     "outputs were read: first %s, then %s" % (side, first, again),
                                     {"partition": k}, tags={"prop": "orders", "reread": True}))
        st["traces"].append(tr)
        st["meta"][tid] = {"rec": rec, "partition": k}
        evals += len(tr["ev"])
        if tr["rx"] != tr["rb"] or tr["cx"] != tr["cb"]:
            feats.append("order_changed")
        if len(tr["rx"]) < len(tr["rb"]) or len(tr["cx"]) < len(tr["cb"]):
            feats.append("elements_removed")
    return {"evaluations": evals, "mismatches": mism,
            "nontrivial": bool(feats), "features": sorted(set(feats))}


def _rows_array(scn):
    """the rows dimension of the scenario's slices is array-type (MR / CA / numeric-array items)"""
    import envelope
    ri, _ = envelope.slice_dim_indexes(scn["dims"])
    return scn["dims"][ri]["kind"] in ("mr", "caitems", "numarr")


def finish_job(job):
    """validate the recorded traces with TLC; -> list of (Mismatch, record) and counters"""
    st = _STATE.pop(job["scn"]["name"] + job["mode"], None)
    if not st or not st["traces"]:
        return [], {"traces": 0, "accepted": 0}, None
    acc, rej, err = validate(st["traces"])
    out = []
    for tid, (l, prop) in rej.items():
        meta = st["meta"][tid]
        tr = [t for t in st["traces"] if t["id"] == tid][0]
        ev = tr["ev"][l - 1]
        out.append((Mismatch(job["prop_id"], None,
                             "%s of partition %d is not the untransformed output re-indexed by "
                             "the reported display order (rows %s of %s, columns %s of %s)" %
                             (prop, meta["partition"], tr["rx"], tr["rb"], tr["cx"], tr["cb"]),
                             {"event": ev, "partition": meta["partition"]},
                             tags={"prop": prop, "op": ev["op"],
                                   "rows_array": _rows_array(job["scn"]),
                                   "xf_rows": min(len(tr["rx"]), 1),
                                   "xf_cols": min(len(tr["cx"]), 1)}), meta["rec"]))
    missing = [t["id"] for t in st["traces"] if t["id"] not in acc and t["id"] not in rej]
    if missing and not err:
        err = "no verdict for traces %s" % missing[:5]
    return out, {"traces": len(st["traces"]), "accepted": len(acc)}, err
