#!/venv/bin/python
"""Apply a seeded change to /repo, run the demo and the named checks, undo it.

usage: seedtest.py <seeded dir> <check id> [<check id> ...] [--tier quick]
Writes <seeded dir>/result.json and prints a one-line summary per check.
"""
import json
import os
import subprocess
import sys
import time

VERIF = os.path.dirname(os.path.dirname(os.path.abspath(__file__)))


def sh(cmd, **kw):
    return subprocess.run(cmd, shell=True, capture_output=True, text=True, **kw)


def main():
    d = os.path.abspath(sys.argv[1])
    checks = [a for a in sys.argv[2:] if not a.startswith("--")]
    tier = "quick"
    if "--tier" in sys.argv:
        tier = sys.argv[sys.argv.index("--tier") + 1]
    patch = os.path.join(d, "patch.diff")
    demo = os.path.join(d, "demo.py")
    scratch = "--scratch" in sys.argv
    if scratch:
        return main_scratch(d, checks, tier, patch, demo)
    st = sh("git -C /repo status --porcelain").stdout.strip()
    if st:
        print("refusing: /repo is not clean:\n" + st)
        return 2
    res = {"checks": {}, "ran_at": time.strftime("%Y-%m-%d %H:%M:%S")}
    env = dict(os.environ, PYTHONPATH="/repo/src")
    if os.path.exists(demo):
        r = sh("/venv/bin/python %s" % demo, env=env)
        res["demo_unchanged_exit"] = r.returncode
    a = sh("git -C /repo apply %s" % patch)
    if a.returncode != 0:
        a = sh("git -C /repo apply --3way %s" % patch)
        if a.returncode != 0:
            print("patch does not apply: " + a.stderr[-500:])
            sh("git -C /repo reset -q --hard HEAD")
            return 2
        sh("git -C /repo reset -q")
    try:
        if os.path.exists(demo):
            r = sh("/venv/bin/python %s" % demo, env=env)
            res["demo_changed_exit"] = r.returncode
        if "--suite" in sys.argv:
            r = sh("cd /repo && /venv/bin/python -m pytest -q -p no:cacheprovider 2>&1 | tail -1")
            res["suite"] = r.stdout.strip()
        for c in checks:
            t0 = time.time()
            r = sh("cd %s && ./check %s --tier %s" % (VERIF, c, tier))
            viol = [l for l in r.stdout.splitlines() if l.startswith("VIOLATION")]
            detail = [l.strip() for l in r.stdout.splitlines() if l.startswith("  ")][:2]
            res["checks"][c] = {"exit": r.returncode, "violations": len(viol),
                                "first": detail[:1], "wall_s": round(time.time() - t0, 1),
                                "stderr": r.stderr[-300:] if r.returncode == 2 else ""}
            print("%s: %s exit=%d %s" % (os.path.basename(d), c, r.returncode,
                                        (detail[0][:200] if detail else "")))
    finally:
        sh("git -C /repo reset -q --hard HEAD")
    with open(os.path.join(d, "result.json"), "w") as f:
        json.dump(res, f, indent=1)
    print(json.dumps({k: v for k, v in res.items() if k != "checks"}))
    return 0


def main_scratch(d, checks, tier, patch, demo):
    """same, against an export of /repo's HEAD under /var/tmp (used while /repo must stay untouched,
    e.g. while a long run reads it); results are marked scratch and never become evidence"""
    import shutil
    import tempfile
    tree = tempfile.mkdtemp(prefix="seedtree_", dir="/var/tmp")
    out = tempfile.mkdtemp(prefix="seedout_", dir="/var/tmp")
    res = {"checks": {}, "ran_at": time.strftime("%Y-%m-%d %H:%M:%S"), "scratch": True,
           "repo_head": sh("git -C /repo rev-parse --short HEAD").stdout.strip()}
    try:
        sh("git -C /repo archive HEAD src | tar -x -C %s" % tree)
        denv = dict(os.environ, PYTHONPATH=os.path.join(tree, "src"))
        pre = "import cr; cr.__path__.insert(0, %r); " % os.path.join(tree, "src", "cr")
        def run_demo():
            return sh("/venv/bin/python -c %r" % (pre + "import runpy, sys; sys.argv=[%r]; "
                                                   "runpy.run_path(%r, run_name='__main__')"
                                                   % (demo, demo)), env=denv)
        if os.path.exists(demo):
            res["demo_unchanged_exit"] = run_demo().returncode
        a = sh("cd %s && patch -p1 --no-backup-if-mismatch < %s" % (tree, patch))
        if a.returncode != 0:
            print("patch does not apply: " + (a.stdout + a.stderr)[-500:])
            return 2
        if os.path.exists(demo):
            res["demo_changed_exit"] = run_demo().returncode
        env = dict(os.environ, VERIF_REPO_SRC=os.path.join(tree, "src"), VERIF_OUT=out)
        for c in checks:
            t0 = time.time()
            r = sh("cd %s && ./check %s --tier %s" % (VERIF, c, tier), env=env)
            viol = [l for l in r.stdout.splitlines() if l.startswith("VIOLATION")]
            detail = [l.strip() for l in r.stdout.splitlines() if l.startswith("  ")][:2]
            res["checks"][c] = {"exit": r.returncode, "violations": len(viol),
                                "first": detail[:1], "wall_s": round(time.time() - t0, 1),
                                "stderr": r.stderr[-300:] if r.returncode == 2 else ""}
            print("%s: %s exit=%d %s" % (os.path.basename(d), c, r.returncode,
                                        (detail[0][:200] if detail else "")))
    finally:
        shutil.rmtree(tree, ignore_errors=True)
        shutil.rmtree(out, ignore_errors=True)
    # results of other checks against the same /repo HEAD are kept (a later run adds the
    # neighbours of a property's own check)
    try:
        old = json.load(open(os.path.join(d, "result.json")))
        if old.get("repo_head") == res["repo_head"] and old.get("scratch"):
            for c, v in old.get("checks", {}).items():
                res["checks"].setdefault(c, v)
    except (OSError, ValueError):
        pass
    with open(os.path.join(d, "result.json"), "w") as f:
        json.dump(res, f, indent=1)
    print(json.dumps({k: v for k, v in res.items() if k != "checks"}))
    return 0


if __name__ == "__main__":
    sys.exit(main())
