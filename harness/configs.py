"""Analysis configurations (view insertions + transforms): one Python description that is
rendered both as the TLA+ constant the spec interprets and as the JSON the library gets.
Purely syntactic: nothing here decides what a configuration means."""
import copy

from tlcrun import tla_value


def anchor(x):
    """anchor record from a user-level value: 'top', 'Bottom', 3, '3', None"""
    if x is None:
        return {"k": "null", "v": 0, "s": "", "lo": ""}
    if isinstance(x, int):
        return {"k": "int", "v": x, "s": "", "lo": ""}
    if isinstance(x, str) and x.lstrip("-").isdigit():
        return {"k": "strint", "v": int(x), "s": x, "lo": x}
    return {"k": "kw", "v": 0, "s": x, "lo": x.lower()}


def insertion(name, anc, pos=(), neg=(), id=0, fn="subtotal", hide=False, style=None,
              noanchor=False, noname=False, lrank=0):
    return {"fn": fn, "name": name, "anchor": anchor(anc), "pos": list(pos),
            "neg": list(neg), "style": style or ("kwargs" if neg else "args"),
            "id": id, "hide": hide, "noanchor": noanchor, "noname": noname, "lrank": lrank}


ORDER_DEFAULTS = {"type": "payload", "ids": [], "measure": "", "marginal": "", "eid": 0,
                  "iid": 0, "dir": "descending", "top": [], "bottom": []}


def order(**kw):
    o = dict(ORDER_DEFAULTS)
    o.update(kw)
    return o


def dimcfg(vins=(), xins=None, hide=(), prune=False, order=None, smoother=None, junk=False):
    """smoother: None (no smoother transform) or {"win": int | None, "omit": bool};
    junk: the JSON insertion lists also carry entries that are not objects (they denote
    nothing, so the spec never sees them)"""
    o = dict(ORDER_DEFAULTS)
    o.update(order or {})
    sm = ({"has": False, "win": None, "omit": False} if smoother is None
          else {"has": True, "win": smoother.get("win"), "omit": bool(smoother.get("omit"))})
    return {"vins": list(vins), "hasx": xins is not None, "xins": list(xins or ()),
            "hide": sorted(hide), "prune": prune, "order": o, "smoother": sm, "junk": bool(junk)}


def config(rows=None, cols=None):
    return {"rows": rows or dimcfg(), "cols": cols or dimcfg()}


DEFAULT = config()


# ---------------------------------------------------------------- TLA+ rendering
def _tla_ins(i):
    return tla_value(i)


def _tla_order(o):
    full = dict(ORDER_DEFAULTS)
    full.update(o)
    return tla_value(full)


def _tla_dimcfg(dc):
    sm = dc.get("smoother") or {"has": False, "win": None}
    return ("[vins |-> %s, hasx |-> %s, xins |-> %s, hide |-> %s, prune |-> %s, order |-> %s, "
            "smoother |-> [has |-> %s, win |-> %s]]"
            % ("<<" + ", ".join(_tla_ins(i) for i in dc["vins"]) + ">>",
               tla_value(dc["hasx"]),
               "<<" + ", ".join(_tla_ins(i) for i in dc["xins"]) + ">>",
               tla_value(set(dc["hide"])), tla_value(dc["prune"]), _tla_order(dc["order"]),
               tla_value(bool(sm["has"])), tla_value(sm["win"])))


def tla_configs(cfgs):
    return "<<" + ",\n  ".join("[idx |-> %d, rows |-> %s, cols |-> %s]" %
                               (i + 1, _tla_dimcfg(c["rows"]), _tla_dimcfg(c["cols"]))
                               for i, c in enumerate(cfgs)) + ">>"


# ---------------------------------------------------------------- JSON rendering
def ins_dict(i):
    d = {"function": i["fn"]}
    if not i["noname"]:
        d["name"] = i["name"]
    if not i["noanchor"]:
        a = i["anchor"]
        d["anchor"] = (None if a["k"] == "null" else a["v"] if a["k"] == "int" else a["s"])
    if i["style"] == "args":
        d["args"] = list(i["pos"])
        if i["neg"]:
            d["kwargs"] = {"negative": list(i["neg"])}
    else:
        d["kwargs"] = {"positive": list(i["pos"]), "negative": list(i["neg"])}
    if i["id"]:
        d["id"] = i["id"]
    if i["hide"]:
        d["hide"] = True
    return d


def order_dict(o):
    t = o["type"]
    if t == "payload":
        return None
    d = {"type": t}
    if t == "explicit":
        d["element_ids"] = list(o["ids"])
    else:
        if o.get("measure"):
            d["measure"] = o["measure"]
        if o.get("marginal"):
            d["marginal"] = o["marginal"]
        if t == "opposing_element":
            d["element_id"] = o.get("eid", 0)
        if t == "opposing_insertion":
            d["insertion_id"] = o.get("iid", 0)
        if o.get("dir") and (o["dir"] != "descending" or o.get("explicit_dir")):
            d["direction"] = o["dir"]
    fixed = {}
    if o.get("top"):
        fixed["top"] = list(o["top"])
    if o.get("bottom"):
        fixed["bottom"] = list(o["bottom"])
    if fixed:
        d["fixed"] = fixed
    return d


def dim_transforms(dc):
    t = {}
    if dc["hasx"]:
        t["insertions"] = _with_junk([ins_dict(i) for i in dc["xins"]], dc)
    if dc["hide"]:
        t["elements"] = {str(i): {"hide": True} for i in dc["hide"]}
    if dc["prune"]:
        t["prune"] = True
    od = order_dict(dc["order"])
    if od:
        t["order"] = od
    sm = dc.get("smoother")
    if sm and sm["has"]:
        t["smoother"] = {"function": "one_sided_moving_avg"}
        if not (sm["win"] is None and sm.get("omit")):
            t["smoother"]["window"] = sm["win"]
    return t


def transforms_dict(cfg):
    t = {}
    pw = cfg.get("pairwise")
    if pw:
        t["pairwise_indices"] = {}
        if pw.get("alpha"):
            t["pairwise_indices"]["alpha"] = list(pw["alpha"])
        if "only_larger" in pw:
            t["pairwise_indices"]["only_larger"] = pw["only_larger"]
    r = dim_transforms(cfg["rows"])
    c = dim_transforms(cfg["cols"])
    if r:
        t["rows_dimension"] = r
    if c:
        t["columns_dimension"] = c
    return t


def _with_junk(lst, dc):
    if dc.get("junk") and lst:
        return ["subtotal"] + lst[:1] + [None, 7] + lst[1:]
    return lst


def view_insertions(dc):
    return _with_junk([ins_dict(i) for i in dc["vins"]], dc)


# ---------------------------------------------------------------- generators
def _ids_plus(dim):
    """ids of a dimension (valid and missing) plus one id that does not exist"""
    return list(dim["ids"]) + [max(dim["ids"]) + 7]


def random_insertion(rng, dim, k, allow_diff=True, with_id=None):
    ids = _ids_plus(dim)
    valid = [i for p, i in enumerate(dim["ids"], 1) if p not in dim["miss"]]
    npos = rng.choice([1, 1, 2, 2, 3, 0])
    pos = rng.sample(ids, min(npos, len(ids)))
    neg = []
    if allow_diff and rng.random() < 0.45:
        neg = rng.sample(ids, rng.choice([1, 1, 2]))
    if not pos and not neg and rng.random() < 0.8:
        pos = [rng.choice(valid)]       # (else: an insertion without terms, which is none)
    # the addends / subtrahends are SETS of ids: a repeated id changes nothing
    if pos and rng.random() < 0.15:
        pos = pos + [rng.choice(pos)]
    if neg and rng.random() < 0.1:
        neg = [neg[0]] + neg
    anc = rng.choice(["top", "bottom", "Top", "BOTTOM", None, ids[-1]] + valid * 2
                     + [str(v) for v in valid] + [i for i in dim["ids"] if i not in valid])
    style = rng.choice(["args", "kwargs"])
    if with_id is None:
        with_id = rng.random() < 0.6
    return insertion("S%d" % k, anc, pos, neg, id=(k + 10 if with_id else 0), style=style,
                     fn=rng.choice(["subtotal"] * 9 + ["other"]),
                     hide=rng.random() < 0.06,
                     noanchor=rng.random() < 0.03, noname=rng.random() < 0.03)


def insertion_configs(rows_dim, cols_dim, n, seed, allow_diff=True, max_ins=2):
    """n random configurations carrying insertions on categorical dimensions, on the view
    or in the transforms, plus a few fixed ones"""
    import random
    rng = random.Random(seed)

    def can(dim):
        return dim is not None and dim["kind"] in ("cat", "cacat")

    def dc_for(dim, force=False):
        if not can(dim):
            return dimcfg()
        m = rng.choice([0, 1, 1, 2][: max_ins + 2]) if not force else rng.choice([1, 2][:max_ins])
        all_ids = rng.random() < 0.7  # ids on all or on none (mixed handled by C07)
        ins = [random_insertion(rng, dim, k + 1, allow_diff, with_id=all_ids) for k in range(m)]
        junk = rng.random() < 0.12
        if rng.random() < 0.5:
            return dimcfg(vins=ins, junk=junk)
        if rng.random() < 0.3:
            # view insertions overridden by transform insertions
            other = [random_insertion(rng, dim, 7, allow_diff, with_id=True)]
            return dimcfg(vins=other, xins=ins, junk=junk)
        return dimcfg(xins=ins, junk=junk)

    out = []

    def rich(dim, on_view):
        """subtotal with two addends, difference with one subtrahend, difference with two"""
        valid = [i for p, i in enumerate(dim["ids"], 1) if p not in dim["miss"]]
        if len(valid) < 3:
            return None
        a, b, c = valid[0], valid[1], valid[-1]
        ins = [insertion("R1", "top", [a, b, a], id=21),
               insertion("R2", b, [a, b], [c], id=22),
               insertion("R3", "bottom", [c], [a, b], id=23),
               insertion("R4", a, [a], [c], id=24),
               insertion("R5", c, [b, c], id=25)]
        return dimcfg(vins=ins) if on_view else dimcfg(xins=ins)

    if allow_diff:
        rr = rich(rows_dim, True) if can(rows_dim) else None
        rc = rich(cols_dim, False) if can(cols_dim) else None
        if rr or rc:
            out.append(config(rr or dimcfg(), rc or dimcfg()))
    for _ in range(n):
        r = dc_for(rows_dim, force=True) if can(rows_dim) else dimcfg()
        c = dc_for(cols_dim, force=not can(rows_dim)) if can(cols_dim) else dimcfg()
        out.append(config(r, c))
    return out


def order_configs(rows_dim, cols_dim, n, seed, with_prune=False, sort=False):
    """n random configurations over explicit / payload order, hide sets, insertions with
    every kind of anchor and with / without ids (C07), optionally prune flags (C09)"""
    import random
    rng = random.Random(seed)

    def can_ins(dim):
        return dim is not None and dim["kind"] in ("cat", "cacat")

    def dc_for(dim):
        if dim is None:
            return dimcfg()
        ids = _ids_plus(dim)
        valid = [i for p, i in enumerate(dim["ids"], 1) if p not in dim["miss"]]
        order = None
        if rng.random() < 0.55:
            k = rng.choice([0, 1, 2, 3, 4, 5])
            order = {"type": "explicit", "ids": [rng.choice(ids) for _ in range(k)]}
        hide = [i for i in valid if rng.random() < 0.2]
        if rng.random() < 0.1:
            hide.append(ids[-1])
        vins, xins = [], None
        if can_ins(dim) and rng.random() < 0.8:
            m = rng.choice([1, 2, 2, 3])
            mode = rng.choice(["all", "none", "none", "mixed"])
            ins = []
            for k in range(m):
                wid = {"all": True, "none": False, "mixed": rng.random() < 0.5}[mode]
                i = random_insertion(rng, dim, k + 1, allow_diff=True, with_id=wid)
                ins.append(i)
            r = rng.random()
            if r < 0.5:
                vins = ins
            elif r < 0.85:
                xins = ins
            else:
                # the analysis re-states (a permutation / subset of) the view insertions
                vins = ins
                xins = rng.sample(ins, rng.randint(1, len(ins)))
        prune = with_prune and rng.random() < 0.6
        return dimcfg(vins=vins, xins=xins, hide=hide, prune=prune, order=order,
                      junk=rng.random() < 0.1)

    return [config(dc_for(rows_dim), dc_for(cols_dim)) for _ in range(n)]


MEASURES_2D = ["col_percent", "row_percent", "table_percent", "count_weighted",
               "count_unweighted", "col_base_unweighted", "col_base_weighted",
               "row_base_unweighted", "row_base_weighted", "table_base_unweighted",
               "table_base_weighted", "col_std_dev", "row_std_dev", "table_std_dev",
               "col_std_err", "col_percent_moe", "row_std_err", "row_percent_moe",
               "table_std_err", "table_percent_moe", "population", "col_index",
               "population_moe", "valid_count_weighted", "valid_count_unweighted", "z_score",
               "p_value"]
MEASURES_2D_Y = ["mean", "sum", "stddev", "col_share_sum", "row_share_sum", "total_share_sum"]
MEASURES_1D = ["percent", "count_weighted", "count_unweighted", "base_unweighted",
               "base_weighted", "percent_stddev", "percent_stderr", "percent_moe",
               "population", "population_moe"]
MEASURES_1D_Y = ["mean", "sum", "share_sum"]
MARGINALS = ["unweighted_base", "weighted_base", "table_proportion", "scale_mean",
             "scale_median", "scale_mean_stddev", "scale_mean_stderr"]


def sort_configs(rows_dim, cols_dim, n, seed, has_y=False):
    """n random sort-by-value configurations (C08)"""
    import random
    rng = random.Random(seed)

    def can_ins(dim):
        return dim is not None and dim["kind"] in ("cat", "cacat")

    def some_ins(dim, k0=0):
        if not can_ins(dim) or rng.random() < 0.25:
            return []
        m = rng.choice([1, 2, 2, 3])
        return [random_insertion(rng, dim, k0 + k + 1, allow_diff=True, with_id=True)
                for k in range(m)]

    def fixed(dim):
        ids = _ids_plus(dim)
        return [rng.choice(ids) for _ in range(rng.choice([0, 0, 1, 1, 2]))]

    out = []
    for _ in range(n):
        sort_rows = cols_dim is None or rng.random() < 0.6
        rins = some_ins(rows_dim)
        cins = some_ins(cols_dim) if cols_dim is not None else []
        # has_y: the numeric measures the response carries (True = mean and sum)
        ym = set(("mean", "sum") if has_y is True else (has_y or ()))
        needs = {"mean": "mean", "sum": "sum", "stddev": "stddev", "col_share_sum": "sum",
                 "row_share_sum": "sum", "total_share_sum": "sum", "share_sum": "sum"}
        meas2 = MEASURES_2D + [m for m in MEASURES_2D_Y if needs[m] in ym]
        meas1 = MEASURES_1D + [m for m in MEASURES_1D_Y if needs[m] in ym]

        def sort_order(dim, opp, opp_ins, is_rows):
            if opp is None:
                t = rng.choice(["univariate_measure"] * 4 + ["label"])
            else:
                t = rng.choice(["opposing_element"] * 4 + ["opposing_insertion"] * 2 + ["label"]
                               + (["marginal"] * 2 if is_rows else []))
            o = {"type": t, "dir": rng.choice(["descending", "descending", "ascending"]),
                 "top": fixed(dim), "bottom": fixed(dim)}
            if rng.random() < 0.3:
                o["explicit_dir"] = True
            if t == "univariate_measure":
                o["measure"] = rng.choice(meas1 + (["bogus_measure"] if rng.random() < 0.1 else []))
            elif t in ("opposing_element", "opposing_insertion"):
                o["measure"] = rng.choice(meas2)
                if t == "opposing_element":
                    o["eid"] = rng.choice(_ids_plus(opp))
                else:
                    cands = [i["id"] for i in opp_ins if i["id"]] + [77]
                    o["iid"] = rng.choice(cands)
            elif t == "marginal":
                o["marginal"] = rng.choice(MARGINALS)
            return o

        def hide_of(dim):
            valid = [i for p, i in enumerate(dim["ids"], 1) if p not in dim["miss"]]
            return [i for i in valid if rng.random() < 0.12]

        if sort_rows:
            r = dimcfg(xins=rins if rng.random() < 0.5 else None, vins=rins,
                       hide=hide_of(rows_dim), prune=rng.random() < 0.2,
                       order=sort_order(rows_dim, cols_dim, cins, True))
            c = (dimcfg(vins=cins, hide=hide_of(cols_dim), prune=rng.random() < 0.2)
                 if cols_dim is not None else dimcfg())
        else:
            r = dimcfg(vins=rins, hide=hide_of(rows_dim), prune=rng.random() < 0.2)
            c = dimcfg(xins=cins if rng.random() < 0.5 else None, vins=cins,
                       hide=hide_of(cols_dim), prune=rng.random() < 0.2,
                       order=sort_order(cols_dim, rows_dim, rins, False))
        out.append(config(r, c))
    return out


def assign_label_ranks(scn):
    """fill in the label ranks the spec sorts labels by (TLC cannot order strings): dense
    rank of every element label and insertion name of a dimension under str ordering"""
    import envelope
    from replay_basic import _labels_to_pos  # noqa: F401  (naming functions live there)
    dims = scn["dims"]
    if not dims:
        return scn
    ri, ci = envelope.slice_dim_indexes(dims)
    for di, side in ((ri, "rows"), (ci, "cols")):
        if di is None:
            continue
        d = dims[di]
        labels = {}
        for p in range(1, d["n"] + 1):
            if d["kind"] in ("mr", "caitems", "numarr"):
                labels[p] = envelope._item_name(d, p)
            else:
                labels[p] = envelope._cat_name(d, p)
        names = set(labels.values())
        for cfg in scn.get("configs") or []:
            for i in cfg[side]["vins"] + cfg[side]["xins"]:
                names.add(i["name"])
        rank = {s: k + 1 for k, s in enumerate(sorted(names))}
        d["lrank"] = [rank[labels[p]] for p in range(1, d["n"] + 1)]
        for cfg in scn.get("configs") or []:
            for i in cfg[side]["vins"] + cfg[side]["xins"]:
                i["lrank"] = rank[i["name"]]
    return scn
