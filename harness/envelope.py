"""Mechanical serialisation: scenario description + the spec's flat tensors -> cube response.

No tabulation happens here.  The dimension skeleton comes from the same scenario
description from which the MC_ module constants were generated, the numbers come from
the TLC emission (`flat`, `flaty`).
"""
import copy
import math
from fractions import Fraction

NA = None

SEL_CATEGORIES = [
    {"id": 1, "missing": False, "name": "Selected", "numeric_value": 1, "selected": True},
    {"id": 0, "missing": False, "name": "Not Selected", "numeric_value": 0},
    {"id": -1, "missing": True, "name": "No Data", "numeric_value": None},
]


def _item_alias(dim, pos):
    """alias of item at 1-based payload position"""
    aliases = dim.get("aliases")
    return aliases[pos - 1] if aliases else "%s_%d" % (dim["var"].lower(), pos)


def _item_subvar_id(dim, pos):
    svids = dim.get("svids")
    return svids[pos - 1] if svids else "%04d" % (pos + 6)


def _item_name(dim, pos):
    names = dim.get("names")
    return names[pos - 1] if names else "%s item %d" % (dim["var"], pos)


def _cat_name(dim, pos):
    names = dim.get("names")
    return names[pos - 1] if names else "%s%d" % (dim["var"].lower(), pos)


def _subrefs(dim):
    return [
        {"alias": _item_alias(dim, p), "name": _item_name(dim, p), "description": None}
        for p in range(1, dim["n"] + 1)
    ]


def _references(dim, extra=None):
    refs = {"alias": dim["var"], "name": "Var " + dim["var"],
            "description": "About " + dim["var"]}
    if dim.get("view_insertions") is not None:
        refs["view"] = {"transform": {"insertions": copy.deepcopy(dim["view_insertions"])}}
    if extra:
        refs.update(extra)
    return refs


def categorical_dim(dim, items_dim=None):
    cats = []
    for p in range(1, dim["n"] + 1):
        c = {"id": dim["ids"][p - 1], "name": _cat_name(dim, p),
             "missing": p in dim["miss"],
             "numeric_value": dim["vals"][p - 1]}
        if dim.get("date"):
            c["date"] = "2020-%02d" % p
            if p in dim["miss"]:
                del c["date"]
        cats.append(c)
    extra = None
    typ = {"class": "categorical", "ordinal": False, "categories": cats}
    if dim.get("logical"):
        # a logical variable: categories 1 / 0 / -1 with the first one flagged selected and no
        # sub-references; the library types it LOGICAL and treats it as a categorical one
        cats[0]["selected"] = True
    if dim.get("typedef_order"):
        # the server may list the categories in another order than the data axis and say
        # so with an "order" list (category ids in DATA order); a wire-format variation
        # only: the payload positions of the spec are unchanged
        typ["order"] = [c["id"] for c in cats]
        typ["categories"] = cats[1:] + cats[:1] if dim["typedef_order"] == "rotate" else cats[::-1]
    if items_dim is not None:  # categories of a categorical array
        extra = {"subreferences": _subrefs(items_dim), "is_dichotomous": False}
        typ["subvariables"] = [_item_subvar_id(items_dim, p) for p in range(1, items_dim["n"] + 1)]
    return {"derived": False, "references": _references(dim, extra), "type": typ}


ENUM_SUBTYPES = {
    "datetime": {"class": "datetime", "resolution": "M", "missing_rules": {},
                 "missing_reasons": {"No Data": -1}},
    "text": {"class": "text", "missing_rules": {}, "missing_reasons": {"No Data": -1}},
    "binned": {"class": "numeric", "missing_rules": {}, "missing_reasons": {"No Data": -1}},
}


def enum_dim(dim):
    """datetime / text / binned-numeric enum dimension standing for a categorical one"""
    st = dim["subtype"]
    els = []
    for p in range(1, dim["n"] + 1):
        missing = p in dim["miss"]
        if missing:
            value = {"?": -1}
        elif st == "datetime":
            value = "2021-%02d" % p
        elif st == "text":
            value = "%s%d" % (dim["var"].lower(), p)
        else:
            value = [10 * (p - 1), 10 * p]
        els.append({"id": dim["ids"][p - 1], "missing": missing, "value": value})
    return {"derived": True, "references": _references(dim),
            "type": {"class": "enum", "elements": els, "subtype": dict(ENUM_SUBTYPES[st])}}


def items_dim(dim, derived=True):
    els = []
    for p in range(1, dim["n"] + 1):
        # base_derived: the sub-variables of a derived array are themselves flagged derived
        value = {"derived": bool(dim.get("base_derived")), "id": _item_subvar_id(dim, p),
                 "references": {"alias": _item_alias(dim, p), "name": _item_name(dim, p),
                                "description": None}}
        dv = {int(k): v for k, v in (dim.get("derived") or {}).items()}.get(p)
        if dv:
            value["derived"] = True
            # the server puts the insertion's name where a sub-variable id would be
            value["id"] = _item_subvar_id(dim, p) if dim.get("svids") else _item_name(dim, p)
            at = dv.get("at", "none")
            if at in ("top", "bottom"):
                value["references"]["anchor"] = at
            elif at in ("before", "after"):
                value["references"]["anchor"] = {"alias": _item_alias(dim, dv["ref"]),
                                                 "position": at}
        els.append({"id": dim["ids"][p - 1], "missing": False, "value": value})
    extra = {"subreferences": _subrefs(dim), "is_dichotomous": dim["kind"] == "mr"}
    if dim.get("derived"):
        # the variable's view lists the "any selected" insertions the server materialised
        extra["view"] = {"transform": {"insertions": [
            {"function": "any_selected", "name": _item_name(dim, p), "anchor": dv.get("at", "bottom"),
             "kwargs": {"variable": dim["var"],
                        "subvariable_ids": [_item_alias(dim, q) for q in dv.get("of", ())]}}
            for p, dv in sorted((int(k), v) for k, v in dim["derived"].items())]}}
    return {"derived": derived,
            "references": _references(dim, extra),
            "type": {"class": "enum", "elements": els, "subtype": {"class": "variable"}}}


def mr_sel_dim(dim):
    return {"derived": True,
            "references": _references(dim, {"subreferences": _subrefs(dim),
                                            "is_dichotomous": True}),
            "type": {"class": "categorical", "ordinal": False,
                     "categories": copy.deepcopy(SEL_CATEGORIES),
                     "subvariables": [_item_subvar_id(dim, p) for p in range(1, dim["n"] + 1)]}}


def slice_dim_indexes(dims):
    """(rows index, columns index or None) among the apparent dimensions"""
    n = len(dims)
    if n == 3:
        return 1, 2
    if n == 2:
        return 0, 1
    return 0, None


def dimension_dicts(scn, cfg=None):
    """the result.dimensions list for a scenario (numeric-array dims are not listed)"""
    dims = copy.deepcopy(scn["dims"])
    if cfg is not None and dims:
        import configs
        ri, ci = slice_dim_indexes(dims)
        if cfg["rows"]["vins"]:
            dims[ri]["view_insertions"] = configs.view_insertions(cfg["rows"])
        if ci is not None and cfg["cols"]["vins"]:
            dims[ci]["view_insertions"] = configs.view_insertions(cfg["cols"])
    out = []
    for d in dims:
        k = d["kind"]
        if k == "cat":
            if d.get("subtype") in ENUM_SUBTYPES:
                out.append(enum_dim(d))
            else:
                out.append(categorical_dim(d))
        elif k == "mr":
            out.append(items_dim(d))
            out.append(mr_sel_dim(d))
        elif k == "caitems":
            out.append(items_dim(d))
        elif k == "cacat":
            items = [x for x in dims if x["var"] == d["var"] and x["kind"] == "caitems"][0]
            out.append(categorical_dim(d, items_dim=items))
        elif k == "numarr":
            pass
        else:
            raise ValueError(k)
    return out


def num(x):
    """spec rational [n, d] (or int) -> JSON number or the server's missing marker"""
    if isinstance(x, int):
        return x
    n, d = x
    if d == 0:
        return {"?": -8}
    if n % d == 0:
        return n // d
    return n / d


def _measure(data, scn, numeric=False, n_missing=0):
    meta = {"derived": True, "references": {},
            "type": {"class": "numeric", "integer": False, "missing_rules": {},
                     "missing_reasons": {"No Data": -1, "NaN": -8}}}
    na = [d for d in scn["dims"] if d["kind"] == "numarr"]
    if numeric and na:
        d = na[0]
        meta["references"] = {"alias": d["var"], "name": "Var " + d["var"],
                              "subreferences": [{"alias": _item_alias(d, p),
                                                 "name": _item_name(d, p)}
                                                for p in range(1, d["n"] + 1)]}
        meta["type"]["subvariables"] = [_item_subvar_id(d, p) for p in range(1, d["n"] + 1)]
    return {"data": [num(x) for x in data], "metadata": meta, "n_missing": n_missing}


def build_response(scn, rec, cfg=None):
    """cube response dict for one emitted state"""
    flat = rec["flat"]
    measures = {}
    if scn.get("weighted"):
        measures["count"] = _measure(flat["count"], scn)
    else:
        measures["count"] = _measure(flat["counts"], scn)
    if scn.get("squared_weights"):
        measures["weighted_squared_count"] = _measure(flat["w2"], scn)
    fov = rec.get("flatov")
    if scn.get("overlaps") and isinstance(fov, dict) and "ov" in fov:
        d = scn["dims"][-1]
        meta = {"derived": True,
                "references": {"subreferences": [{"alias": _item_alias(d, p), "name": _item_name(d, p)}
                                                 for p in range(1, d["n"] + 1)]},
                "type": {"class": "numeric", "integer": True, "missing_rules": {},
                         "missing_reasons": {"No Data": -1},
                         "subvariables": [_item_subvar_id(d, p) for p in range(1, d["n"] + 1)]}}
        measures["overlap"] = {"data": [num(x) for x in fov["ov"]], "metadata": meta, "n_missing": 0}
        measures["valid_overlap"] = {"data": [num(x) for x in fov["vov"]], "metadata": copy.deepcopy(meta),
                                     "n_missing": 0}
    flaty = rec.get("flaty")
    if flaty:
        ym = rec["hdr"]["ymissing"]
        for name in scn.get("ymeasures", ()):
            measures[name] = _measure(flaty[name], scn, numeric=True, n_missing=ym)
        if scn.get("valid_counts"):
            measures["valid_count_unweighted"] = _measure(flaty["vcu"], scn, numeric=True, n_missing=ym)
            if scn.get("weighted"):
                measures["valid_count_weighted"] = _measure(flaty["vcw"], scn, numeric=True,
                                                            n_missing=ym)
    result = {
        "element": "crunch:cube",
        "dimensions": dimension_dicts(scn, cfg),
        "counts": list(flat["counts"]),
        "measures": measures,
        "n": rec["hdr"]["n"],
        "missing": rec["hdr"]["missing"],
    }
    f = scn.get("filter")
    if f:
        if f.get("style") == "new":
            w = {"selected": f.get("sel", 0), "other": f.get("oth", 0), "missing": 0}
            result["filter_stats"] = {
                "filtered_complete": {"weighted": w, "unweighted": dict(w)},
                "filtered": {"weighted": dict(w), "unweighted": dict(w)}}
            if f.get("catdate"):
                result["filter_stats"]["is_cat_date"] = True
            # old-style fields are present as well and must lose
            result["filtered"] = {"unweighted_n": 1, "weighted_n": 1}
            result["unfiltered"] = {"unweighted_n": 3, "weighted_n": 3}
        elif f.get("style") == "old":
            if f.get("null_new"):
                result["filter_stats"] = {"filtered_complete": {"weighted": None}}
            if f.get("catdate"):
                # the flag alone, without complete-case statistics
                result.setdefault("filter_stats", {})["is_cat_date"] = True
            result["filtered"] = {"unweighted_n": f.get("fn"), "weighted_n": f.get("fn")}
            result["unfiltered"] = {"unweighted_n": f.get("un"), "weighted_n": f.get("un")}
            if f.get("fn") is None:
                del result["filtered"]
    return {"query": {}, "result": result}
