"""Drive TLC scenarios in parallel, replay every emitted state into the real library,
collect verdicts and write the evidence file."""
import hashlib
import json
import multiprocessing as mp
import os
import sys
import time
import traceback

HERE = os.path.dirname(os.path.abspath(__file__))
VERIF = os.path.dirname(HERE)
# development aid (seedtest --scratch): evidence and replay files of a run against a scratch tree
# must not overwrite those of runs against /repo
OUT = os.environ.get("VERIF_OUT", VERIF)
sys.path.insert(0, HERE)

import scenarios as S  # noqa: E402
from tlcrun import TLCRun  # noqa: E402

KNOWN_FINDINGS_FILE = os.path.join(VERIF, "known_findings.json")


def load_known_findings():
    try:
        with open(KNOWN_FINDINGS_FILE) as f:
            return json.load(f)
    except FileNotFoundError:
        return {"findings": [], "fixed": []}


def match_finding(findings, m):
    """the known finding a mismatch (dict) falls under, or None: same property and every
    tag the finding lists has the same value in the mismatch"""
    tags = m.get("tags") or {}
    for f in findings:
        if f["property"] != m["property"]:
            continue
        if all(str(tags.get(k)) == str(v) for k, v in f["tags"].items()):
            return f
    return None


class Mismatch:
    """One disagreement between the library and the spec."""

    def __init__(self, prop_id, signature, what, detail, severity="violation", tags=None):
        self.prop_id = prop_id
        self.tags = dict(tags or {})
        if tags:
            signature = "|".join("%s=%s" % (k, self.tags[k]) for k in sorted(self.tags))
        self.signature = signature  # structural signature used for known-findings
        self.what = what
        self.detail = detail
        self.severity = severity  # "violation" | "drift"

    def to_dict(self):
        return {"property": self.prop_id, "signature": self.signature, "what": self.what,
                "detail": self.detail, "severity": self.severity, "tags": self.tags}


def _job_worker(job):
    """Run one scenario: TLC -> records -> replay.  Returns a summary dict."""
    import importlib
    t0 = time.time()
    scn = job["scn"]
    replay_mod = importlib.import_module(job["replayer"][0])
    replay_fn = getattr(replay_mod, job["replayer"][1])
    out = {"scn": scn["name"], "mode": job["mode"], "records": 0, "distinct": 0,
           "evaluations": 0, "nontrivial": 0, "mismatches": [], "features": {},
           "samples": [], "error": None, "generated": 0, "tlc_distinct": 0}
    seen = set()
    findings = load_known_findings().get("findings", [])
    run = TLCRun(scn["name"] + "." + job["mode"], job["root"], job["defs"], job["cfg"],
                 mode=job["mode"], sim_num=job.get("sim_num", 0),
                 sim_depth=job.get("sim_depth", 8), seed=job.get("seed", 0),
                 timeout=job.get("timeout"))
    max_records = job.get("max_records")
    try:
        for rec in run:
            out["records"] += 1
            key = hashlib.sha1(json.dumps(rec, sort_keys=True).encode()).hexdigest()
            if key in seen:
                continue
            seen.add(key)
            out["distinct"] += 1
            try:
                res = replay_fn(job, rec)
            except Exception:
                out["error"] = "replayer crashed on %s: %s" % (scn["name"], traceback.format_exc()[-1500:])
                break
            out["evaluations"] += res["evaluations"]
            if res.get("nontrivial"):
                out["nontrivial"] += 1
            for f in res.get("features", ()):
                out["features"][f] = out["features"].get(f, 0) + 1
            for m in res["mismatches"]:
                md = m.to_dict()
                is_known = match_finding(findings, md) is not None
                n_known = sum(1 for x in out["mismatches"] if x.get("known"))
                n_new = len(out["mismatches"]) - n_known
                # known findings must never crowd out a new violation
                if (is_known and n_known < 25) or (not is_known and n_new < 60):
                    out["mismatches"].append({"mismatch": md, "record": rec, "known": is_known,
                                              "job": _job_essentials(job)})
                else:
                    out["mismatches_dropped"] = out.get("mismatches_dropped", 0) + 1
            if len(out["samples"]) < 2 and res.get("nontrivial"):
                out["samples"].append(res.get("sample") or _trim(rec))
            if max_records and out["distinct"] >= max_records:
                run.proc.kill()
                out["truncated"] = True
                break
        if out["error"] is None and hasattr(replay_mod, "finish_job"):
            extra, counters, err = replay_mod.finish_job(job)
            out["trace_counters"] = counters
            if err:
                out["error"] = "trace validation failed: %s" % err
            for m, r in extra:
                if len(out["mismatches"]) < 60:
                    out["mismatches"].append({"mismatch": m.to_dict(), "record": r,
                                              "job": _job_essentials(job)})
    finally:
        if run.proc is not None and run.proc.poll() is None:
            run.proc.kill()
        if (run.error and job.get("overflow_ok") and "Overflow when computing" in run.error
                and out["distinct"] > 0):
            # a "power" simulation (batches of respondents) ends where the spec's exact
            # rational arithmetic leaves TLC's 32-bit integers; what was emitted before
            # stands, the bound is reported in the evidence
            out["stopped_at_overflow"] = True
        elif run.error and not out.get("truncated"):
            out["error"] = out["error"] or run.error
        out["generated"] = run.generated
        out["tlc_distinct"] = run.distinct
        run.close()
    out["wall_s"] = time.time() - t0
    return out


def _job_essentials(job):
    return {k: v for k, v in job.items() if k not in ("defs", "cfg")}


def replay_file(prop_id, path, props=None):
    """re-run exactly the recorded state through the replayer"""
    import importlib
    with open(path) as f:
        doc = json.load(f)
    job = doc["job"]
    mod = importlib.import_module(job["replayer"][0])
    res = getattr(mod, job["replayer"][1])(job, doc["record"])
    known = load_known_findings()
    findings = known.get("findings", [])
    bad = 0
    for m in res["mismatches"]:
        d = m.to_dict()
        if d["severity"] == "drift":
            print("DRIFT property=%s %s :: %s" % (prop_id, d["signature"], d["what"]))
        elif match_finding(findings, d) is not None:
            print("KNOWN-FINDING: property=%s %s" % (prop_id, d["what"]))
        else:
            bad += 1
            print("VIOLATION property=%s replay=%s" % (prop_id, path))
            print("  %s :: %s" % (d["signature"], d["what"]))
    if not bad:
        print("replay of %s: property %s holds on the recorded case" % (path, prop_id))
    return 1 if bad else 0


def _trim(rec, limit=1500):
    s = json.dumps(rec)
    if len(s) <= limit:
        return rec
    small = {k: v for k, v in rec.items() if k in ("scn", "nresp", "flat", "data", "xf")}
    s = json.dumps(small)
    return small if len(s) <= limit else {"scn": rec.get("scn"), "truncated": s[:limit]}


def make_job(scn, family, replayer, root="Emit", mode="bfs", seed=0, sim_num=0,
             sim_depth=0, extra_defs=None, extra_constants=(), invariants=("EmitInv",),
             timeout=None, max_records=None, **kw):
    scn = dict(scn)
    if mode == "sim":
        scn["max_resp"] = kw.pop("sim_max_resp", None) or scn.get("sim_max_resp", scn["max_resp"] + 3)
        sim_depth = sim_depth or scn["max_resp"] + 1
    defs = S.mc_defs(scn)
    if extra_defs:
        defs.update(extra_defs)
    job = {"scn": scn, "family": family, "root": root, "defs": defs,
           "cfg": S.mc_cfg(scn, family, invariants, extra_constants, sim=(mode == "sim")),
           "mode": mode, "seed": seed, "sim_num": sim_num, "sim_depth": sim_depth,
           "replayer": replayer, "timeout": timeout, "max_records": max_records}
    job.update(kw)
    return job


def run_jobs(jobs, procs=None):
    """run all jobs against one snapshot of the spec directory (so that editing the spec
    while a check runs cannot mix versions)"""
    import shutil
    import tempfile
    from tlcrun import SPEC_DIR, SCRATCH_ROOT
    snap = tempfile.mkdtemp(prefix="verif.spec.%d." % os.getpid(), dir=SCRATCH_ROOT)
    for f in os.listdir(SPEC_DIR):
        if f.endswith(".tla"):
            shutil.copy(os.path.join(SPEC_DIR, f), snap)
    os.environ["VERIF_SPEC_SNAPSHOT"] = snap
    try:
        procs = procs or min(len(jobs), max(1, (os.cpu_count() or 2) // 2))
        if procs <= 1 or len(jobs) == 1:
            return [_job_worker(j) for j in jobs]
        ctx = mp.get_context("fork")
        with ctx.Pool(procs) as pool:
            return pool.map(_job_worker, jobs, chunksize=1)
    finally:
        os.environ.pop("VERIF_SPEC_SNAPSHOT", None)
        shutil.rmtree(snap, ignore_errors=True)


def finish(prop_id, tier, seed, level, results, t0, rule, assumptions, feature_floor=(),
           extra_coverage=None, replay_dir=None):
    """Aggregate job results, print verdict lines, write evidence; return exit code."""
    known = load_known_findings()
    findings = known.get("findings", [])
    states = sum(r["tlc_distinct"] or r["distinct"] for r in results)
    transitions = sum(r["generated"] for r in results)
    replayed = sum(r["distinct"] for r in results)
    traces_b = sum((r.get("trace_counters") or {}).get("traces", 0) for r in results)
    traces_b_acc = sum((r.get("trace_counters") or {}).get("accepted", 0) for r in results)
    evaluations = sum(r["evaluations"] for r in results)
    nontrivial = sum(r["nontrivial"] for r in results)
    features = {}
    for r in results:
        for k, v in r["features"].items():
            features[k] = features.get(k, 0) + v
    errors = [r["error"] for r in results if r["error"]]
    samples = [s for r in results for s in r["samples"]][:3]
    violations = 0
    drifts = 0
    known_hit = {}
    known_what = {}
    replay_dir = replay_dir or os.path.join(OUT, "replays", prop_id)
    printed = set()
    for r in results:
        for mm in r["mismatches"]:
            m = mm["mismatch"]
            if m["property"] != prop_id:
                continue
            key = (m["property"], m["signature"])
            if m["severity"] == "drift":
                drifts += 1
                if key not in printed:
                    print("DRIFT property=%s %s :: %s" % (prop_id, m["signature"], m["what"]))
                    printed.add(key)
                continue
            kf = match_finding(findings, m)
            if kf is not None:
                kkey = (kf["property"], kf["id"])
                known_hit[kkey] = known_hit.get(kkey, 0) + 1
                known_what[kkey] = kf["what"]
                continue
            violations += 1
            if key in printed:
                continue
            printed.add(key)
            os.makedirs(replay_dir, exist_ok=True)
            h = hashlib.sha1(json.dumps(mm, sort_keys=True).encode()).hexdigest()[:12]
            path = os.path.join(replay_dir, h + ".json")
            with open(path, "w") as f:
                json.dump({"property": prop_id, "job": mm["job"], "mismatch": m,
                           "record": mm["record"]}, f)
            print("VIOLATION property=%s replay=%s" % (prop_id, path))
            print("  %s :: %s" % (m["signature"], m["what"]))
    for key, cnt in sorted(known_hit.items()):
        print("KNOWN-FINDING: property=%s %s (%s; seen %d times)" %
              (key[0], known_what[key], key[1], cnt))
    missing_features = [f for f in feature_floor if features.get(f, 0) == 0]
    coverage = {
        "states": states, "transitions": transitions,
        "traces_validated_against_impl": replayed + traces_b,
        "behaviours_replayed_into_impl": replayed,
        "recorded_traces_validated_by_tlc": traces_b,
        "recorded_traces_accepted": traces_b_acc,
        "evaluations": evaluations, "distinct_nontrivial": nontrivial,
        "rule": rule, "samples": samples or [{"note": "no sample"}],
        "features": features,
        "scenarios": [{"scn": r["scn"], "mode": r["mode"], "states": r["tlc_distinct"] or r["distinct"],
                       "replayed": r["distinct"], "wall_s": round(r.get("wall_s", 0), 1),
                       **({"stopped_at_32bit_overflow": True} if r.get("stopped_at_overflow") else {})}
                      for r in results],
        "known_findings_seen": {"%s|%s" % k: v for k, v in known_hit.items()},
        "drift": drifts,
        "exhaustive": False,
    }
    if extra_coverage:
        coverage.update(extra_coverage)
    ev = {"property_id": prop_id, "tier": tier, "seed": seed, "level": level,
          "coverage": coverage, "assumptions": assumptions,
          "wall_s": round(time.time() - t0, 2), "violations": violations}
    os.makedirs(os.path.join(OUT, "evidence"), exist_ok=True)
    with open(os.path.join(OUT, "evidence", prop_id + ".json"), "w") as f:
        json.dump(ev, f, indent=1)
    if errors:
        for e in errors[:3]:
            print("MACHINERY-ERROR: %s" % e, file=sys.stderr)
        return 2
    if states == 0 or replayed == 0:
        print("MACHINERY-ERROR: nothing explored", file=sys.stderr)
        return 2
    if missing_features:
        print("MACHINERY-ERROR: vacuity floor: features never exercised: %s" % missing_features,
              file=sys.stderr)
        return 2
    print("%s %s: states=%d generated=%d replayed=%d comparisons=%d violations=%d "
          "known=%d drift=%d wall=%.1fs" %
          (prop_id, tier, states, transitions, replayed, evaluations, violations,
           sum(known_hit.values()), drifts, time.time() - t0))
    return 1 if violations else 0
