#!/usr/bin/env python3
"""Summarise /verif/seeded/*/ (meta.json + result.json) as a markdown table and normalise
meta.json (property, what it needs, what was run)."""
import glob
import json
import os

VERIF = os.path.dirname(os.path.dirname(os.path.abspath(__file__)))


def main():
    rows = []
    for d in sorted(glob.glob(os.path.join(VERIF, "seeded", "*"))):
        name = os.path.basename(d)
        try:
            meta = json.load(open(os.path.join(d, "meta.json")))
        except Exception:
            meta = {}
        res = {}
        if os.path.exists(os.path.join(d, "result.json")):
            res = json.load(open(os.path.join(d, "result.json")))
        checks = res.get("checks", {})
        hist = meta.get("verif_runs") or {}
        for c, r in checks.items():
            hist[c] = {"exit": r["exit"], "first": (r.get("first") or [""])[0][:300],
                       "ran_at": res.get("ran_at")}
        meta["verif_runs"] = hist
        meta["property"] = meta.get("property") or name.split("-")[0]
        meta["demo_unchanged_exit"] = res.get("demo_unchanged_exit", meta.get("demo_unchanged_exit"))
        meta["demo_changed_exit"] = res.get("demo_changed_exit", meta.get("demo_changed_exit"))
        meta["how_run"] = ("git -C /repo apply seeded/%s/patch.diff; ./check <id> --tier quick; "
                           "git -C /repo reset --hard HEAD  (harness/seedtest.py)" % name)
        json.dump(meta, open(os.path.join(d, "meta.json"), "w"), indent=1)
        caught = [c for c, r in hist.items() if r["exit"] == 1]
        missed = [c for c, r in hist.items() if r["exit"] == 0]
        rows.append((name, (meta.get("summary") or "")[:110].replace("|", "/"),
                     ", ".join(caught) or "-", ", ".join(m for m in missed if m not in caught) or "-"))
    print("| seeded change | what it does | caught by | run without alarm |")
    print("|---|---|---|---|")
    for r in rows:
        print("| %s | %s | %s | %s |" % r)


if __name__ == "__main__":
    main()
