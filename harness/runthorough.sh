#!/bin/bash
# run the thorough tier of the given checks (default: all claimed) one after another
ids="$@"
if [ -z "$ids" ]; then ids=$(python3 -c "import json; print(' '.join(c['property_id'] for c in json.load(open('MANIFEST.json'))['checks']))"); fi
for id in $ids; do
  start=$(date +%s)
  ./check $id --tier thorough > thorough_$id.txt 2>&1
  rc=$?
  echo "$id exit=$rc wall=$(( $(date +%s) - start ))s $(tail -1 thorough_$id.txt | cut -c1-170)"
  if [ $rc -ne 0 ]; then grep -A1 "^VIOLATION" thorough_$id.txt | grep -v "^VIOLATION\|^--" | cut -c1-320 | sort | uniq -c | sort -rn | head -6; grep "MACHINERY" thorough_$id.txt | head -3 | cut -c1-400; fi
done
