"""C18: access-history purity.

Direction A: behaviours of spec/Session.tla (schedules of Construct / Read over response
and transforms OBJECTS shared between cubes and partitions) are replayed on live library
objects; every read is compared with a fresh evaluation on pristine deep copies, and the
caller's dictionaries are compared with the model's rewrite state.

Direction B: the `lazyproperty` hook (src/cr/cube/util.py, CRUNCH_CUBE_VERIF=1) records the
cache event stream during those replays, during long random read schedules over every
public property, and during the repository's own integration tests; TLC validates the
streams against spec/trace/TraceCache.tla.
"""
import copy
import json
import math
import os
import random
import sys
import time

import numpy as np

HERE = os.path.dirname(os.path.abspath(__file__))
VERIF = os.path.dirname(HERE)

import configs  # noqa: E402
import envelope  # noqa: E402
import relation  # noqa: E402
import runner  # noqa: E402
import scenarios as S  # noqa: E402
from runner import Mismatch  # noqa: E402
from tlcrun import TLCRun  # noqa: E402

PROPS = ["row_labels", "counts", "column_proportions", "row_order"]


# --------------------------------------------------------------------- recording
class Recorder:
    """collects lazyproperty events as TraceCache events"""

    def __init__(self):
        self.events = []
        self._objs = {}
        self._vals = {}
        self._keep = []

    def __call__(self, obj, name, kind, value):
        o = self._objs.get(id(obj))
        if o is None:
            o = self._objs[id(obj)] = len(self._objs) + 1
            self._keep.append(obj)
        if value is None:
            v = 0
        else:
            v = self._vals.get(id(value))
            if v is None:
                v = self._vals[id(value)] = len(self._vals) + 1
                self._keep.append(value)
        # `name` is the getter's qualified name (<defining class>.<property>): an overriding
        # property and the inherited one it calls through super() are different properties
        # of the model although they share the instance's cache slot
        p = name if "." in name else "%s.%s" % (type(obj).__name__, name)
        self.events.append({"o": o, "p": p, "k": kind, "v": v})


def install(rec):
    import cr.cube.util as U
    if not hasattr(U, "_verif_set_tracer"):
        return False
    U._verif_set_tracer(rec)
    return getattr(U, "_VERIF_TRACER", None) is rec or rec is None


def same(a, b):
    a, b = relation_to_py(a), relation_to_py(b)
    return _same(a, b)


def relation_to_py(x):
    if isinstance(x, np.ma.MaskedArray):
        x = x.filled(np.nan)
    if isinstance(x, np.ndarray):
        return x.tolist()
    if isinstance(x, np.generic):
        return x.item()
    if isinstance(x, (tuple, list)):
        return [relation_to_py(v) for v in x]
    return x


def _same(a, b):
    if isinstance(a, float) and isinstance(b, float):
        return (math.isnan(a) and math.isnan(b)) or a == b
    if isinstance(a, (list, tuple)) and isinstance(b, (list, tuple)):
        return len(a) == len(b) and all(_same(x, y) for x, y in zip(a, b))
    if type(a).__module__.startswith("cr.cube") or type(b).__module__.startswith("cr.cube"):
        return type(a) is type(b)
    return a == b


def read(part, prop):
    v = getattr(part, prop)
    return v() if callable(v) else v


# --------------------------------------------------------------------- base records
def base_records(seed, want=4):
    """(scenario, record, config) triples with array-type dimensions and transforms that
    reference elements, taken from the spec's own emission"""
    from scenarios import cat, mr, caitems, cacat, scenario
    out = []
    scns = [
        scenario("T_x_mr_x_cat", [cat("T", 2), mr("A", 3), cat("B", 3, miss=[2])]),
        scenario("T_x_cat_x_mr", [cat("T", 2), cat("A", 3), mr("B", 3)]),
        scenario("mr_x_casub_x_cacat", [mr("T", 2), caitems("A", 2), cacat("A", 3)]),
    ]
    for i, s in enumerate(scns):
        ri, ci = envelope.slice_dim_indexes(s["dims"])
        s["configs"] = configs.order_configs(s["dims"][ri], s["dims"][ci], 12, seed * 31 + i,
                                             with_prune=True)
        s["configs"] += configs.sort_configs(s["dims"][ri], s["dims"][ci], 6, seed * 37 + i)
        configs.assign_label_ranks(s)
        job = runner.make_job(dict(s, max_resp=3), "c07", ("replay_basic", "replay"), mode="sim",
                              seed=seed, sim_num=40, sim_depth=5, sim_max_resp=4, prop_id="C18")
        run = TLCRun(s["name"] + ".c18", job["root"], job["defs"], job["cfg"], mode="sim",
                     sim_num=40, sim_depth=5, seed=seed)
        seen = set()
        refs, plain = [], []

        def references_items(cfg):
            """the transforms name items of the array-type dimension (these are the
            references the library rewrites in the caller's dict)"""
            for side, di in (("rows", ri), ("cols", ci)):
                if di is None or s["dims"][di]["kind"] not in ("mr", "caitems"):
                    continue
                dc = cfg[side]
                if dc["order"]["ids"] or dc["order"]["top"] or dc["order"]["bottom"] or dc["hide"]:
                    return True
            return False

        try:
            for rec in run:
                cfg = s["configs"][rec["ci"] - 1]
                xf = configs.transforms_dict(cfg)
                if rec["nresp"] < 3 or not xf or rec["ci"] in seen:
                    continue
                seen.add(rec["ci"])
                (refs if references_items(cfg) else plain).append((job["scn"], rec, cfg))
                if len(refs) >= want:
                    run.proc.kill()
                    break
        finally:
            run.close()
        out.extend((refs + plain)[:want])
    return out


def pristine(scn, rec, cfg):
    xf = configs.transforms_dict(cfg)
    if cfg.get("raw_transforms"):
        xf = copy.deepcopy(cfg["raw_transforms"])
    return envelope.build_response(scn, rec, cfg), xf


def hash_seed_problems(triples, seed):
    """-> (number of process pairs compared, [(text, tags)])"""
    import subprocess
    import tempfile
    import multicube
    from scenarios import cat, numarr, scenario
    cases = []
    for (s, r, c) in triples[:3]:
        resp, xf = pristine(s, r, c)
        cases.append({"kind": "cube", "response": resp, "transforms": xf})
    # numeric measures: a numeric-array response with several measures whose metadata name
    # the items differently (as real payloads do), and a numeric-measure cube set whose
    # members carry several measures (the default name of the restored rows dimension)
    yk = dict(yvals=(0, 2), ymeasures=("sum", "mean", "stddev"), valid_counts=True)
    sN, rN, _, e1 = multicube.records_for(scenario("hs_numarr", [numarr("N", 3), cat("B", 2)], **yk),
                                          "c01", seed + 11, 1, 2)
    sU, rU, _, e2 = multicube.records_for(scenario("hs_nub", [], **yk), "c01", seed + 12, 1, 2)
    sB, rB, _, e3 = multicube.records_for(scenario("hs_cat", [cat("B", 3, miss=[2])], **yk),
                                          "c01", seed + 13, 1)
    if e1 or e2 or e3 or not (rN and rU and rB):
        raise RuntimeError("no numeric-measure records: %s %s %s" % (e1, e2, e3))
    resp = envelope.build_response(sN, rN[0], configs.DEFAULT)
    for mname, m in resp["result"]["measures"].items():
        subs = (m.get("metadata", {}).get("references", {}) or {}).get("subreferences")
        if subs:
            for k, sr in enumerate(subs):
                sr["name"] = "%s as listed under %s" % (sr["name"], mname)
    cases.append({"kind": "cube", "response": resp, "transforms": {}})
    cases.append({"kind": "set", "transforms": [{}, {}],
                  "responses": [envelope.build_response(sU, rU[0], configs.DEFAULT),
                                envelope.build_response(sB, rB[0], configs.DEFAULT)]})
    d = tempfile.mkdtemp(prefix="verif.hash.%d." % os.getpid(), dir=os.environ.get("VERIF_SCRATCH", "/var/tmp"))
    try:
        f = os.path.join(d, "cases.json")
        json.dump(cases, open(f, "w"))
        docs = {}
        procs = {hs: subprocess.Popen([sys.executable, os.path.join(HERE, "hashseed_probe.py"), f],
                                      stdout=subprocess.PIPE, stderr=subprocess.PIPE, text=True,
                                      env=dict(os.environ, PYTHONHASHSEED=str(hs)))
                 for hs in (1, 2, 3, 4)}
        for hs, p in procs.items():
            out, err = p.communicate(timeout=300)
            if p.returncode != 0:
                raise RuntimeError("probe failed under PYTHONHASHSEED=%s: %s" % (hs, err[-500:]))
            docs[hs] = json.loads(out)
    finally:
        import shutil
        shutil.rmtree(d, ignore_errors=True)
    problems = []
    ref = docs[1]
    for hs in (2, 3, 4):
        for ci, (a, b) in enumerate(zip(ref, docs[hs])):
            for pi, (pa, pb) in enumerate(zip(a, b)):
                for name in pa:
                    if pa[name] != pb.get(name):
                        problems.append((
                            "%s of partition %d of case %d (%s) differs between processes with "
                            "PYTHONHASHSEED=1 and =%d: %s vs %s" %
                            (name, pi, ci, cases[ci]["kind"], hs, str(pa[name])[:120],
                             str(pb.get(name))[:120]),
                            {"kind": "hash_seed", "prop": name, "source": "hash_seed"}))
                        break
    # one line per property is enough
    seen, uniq = set(), []
    for what, tags in problems:
        if tags["prop"] not in seen:
            seen.add(tags["prop"])
            uniq.append((what, tags))
    return 3, uniq


def rejected_smoother_record(seed):
    """a 2-D response over a categorical-date columns dimension with a smoothing transform the
    library rejects: every read of a smoothed measure must raise, however often it is read"""
    from scenarios import cat, scenario
    s = scenario("cat_x_catdate.badsmoother", [cat("A", 3), cat("B", 3, date=True)])
    job = runner.make_job(dict(s, max_resp=3), "c07", ("replay_basic", "replay"), mode="sim",
                          seed=seed, sim_num=10, sim_depth=5, sim_max_resp=4, prop_id="C18")
    run = TLCRun(s["name"] + ".c18", job["root"], job["defs"], job["cfg"], mode="sim",
                 sim_num=10, sim_depth=5, seed=seed)
    best = None
    try:
        for rec in run:
            if best is None or rec["nresp"] > best["nresp"]:
                best = rec
    finally:
        run.close()
    cfg = dict(configs.DEFAULT, raw_transforms={"columns_dimension": {
        "smoother": {"function": "two_sided_moving_avg", "window": 2}}})
    return (job["scn"], best, cfg) if best is not None else None


# --------------------------------------------------------------------- Session schedules
def session_behaviours(seed, tier, fenced=True):
    """behaviours (hist sequences) of Session.tla: exhaustive to a small depth plus
    simulated deeper ones; -> (list of hist, tlc stats, design violation trace or None)"""
    steps_bfs = 3 if tier == "quick" else 4
    defs = {"MC_Props": "{%s}" % ", ".join(json.dumps(p) for p in PROPS)}

    def cfg(steps):
        return ["CONSTANTS", "  NResp = 2", "  NXf = 2", "  MaxCubes = 2", "  NParts = 2",
                "  Props <- MC_Props", "  MaxSteps = %d" % steps,
                "  Fenced = %s" % ("TRUE" if fenced else "FALSE"),
                "SPECIFICATION Spec", "CHECK_DEADLOCK FALSE", "INVARIANT EmitInv",
                "INVARIANT HitIffSeen", "PROPERTY Monotone"] + (
                    ["INVARIANT NoLostReference"] if fenced else [])

    hists, stats = [], {"states": 0, "generated": 0}
    run = TLCRun("session.bfs", "Session", defs, cfg(steps_bfs), mode="bfs")
    try:
        for rec in run:
            if len(rec["hist"]) == steps_bfs:
                hists.append(rec)
        stats["states"] += run.distinct
        stats["generated"] += run.generated
        err = run.error
    finally:
        run.close()
    if err:
        return hists, stats, err
    depth = 8 if tier == "quick" else 12
    num = 150 if tier == "quick" else 3000
    run = TLCRun("session.sim", "Session", defs, cfg(depth), mode="sim", sim_num=num,
                 sim_depth=depth + 1, seed=seed)
    try:
        best = {}
        for rec in run:
            if len(rec["hist"]) >= depth - 1:
                best[json.dumps(rec["hist"])] = rec
        hists += list(best.values())
        stats["generated"] += run.generated
        stats["states"] += len(best)
        err = run.error
    finally:
        run.close()
    return hists, stats, err


def unfenced_counterexample(seed):
    """a shortest behaviour of the unfenced design on which a read evaluates transforms
    rewritten for another response (the design-level counterexample)"""
    defs = {"MC_Props": "{%s}" % ", ".join(json.dumps(p) for p in PROPS[:2])}
    cfg = ["CONSTANTS", "  NResp = 2", "  NXf = 2", "  MaxCubes = 2", "  NParts = 2",
           "  Props <- MC_Props", "  MaxSteps = 4", "  Fenced = FALSE",
           "SPECIFICATION Spec", "CHECK_DEADLOCK FALSE", "INVARIANT EmitInv"]
    run = TLCRun("session.unfenced", "Session", defs, cfg, mode="bfs")
    found = None
    try:
        for rec in run:
            if rec["lost"] and (found is None or len(rec["hist"]) < len(found["hist"])):
                found = rec
    finally:
        run.close()
    return found


# --------------------------------------------------------------------- replay
class Fresh:
    """fresh evaluations on pristine copies, memoised per (response, transforms, partition,
    property)"""

    def __init__(self, resp, xf):
        self.resp, self.xf, self.memo = resp, xf, {}

    def value(self, r, x, k, prop):
        key = (r, x, k, prop)
        if key not in self.memo:
            from cr.cube.cube import Cube
            cube = Cube(copy.deepcopy(self.resp[r]), transforms=copy.deepcopy(self.xf[x]))
            try:
                self.memo[key] = ("ok", read(cube.partitions[k], prop))
            except Exception as e:  # noqa
                self.memo[key] = ("raise", repr(e))
        return self.memo[key]


def replay_behaviour(beh, resp0, xf0, rec_hook=None):
    """-> list of problem dicts"""
    from cr.cube.cube import Cube
    resp = {r: copy.deepcopy(v) for r, v in resp0.items()}
    xf = {x: copy.deepcopy(v) for x, v in xf0.items()}
    fresh = Fresh(resp0, xf0)
    cubes = []
    problems = []
    for i, st in enumerate(beh["hist"]):
        if st["op"] == "construct":
            cubes.append((st["r"], st["x"], Cube(resp[st["r"]], transforms=xf[st["x"]])))
            continue
        r, x, cube = cubes[st["c"] - 1]
        k = st["k"] - 1
        status, want = fresh.value(r, x, k, st["p"])
        try:
            got = read(cube.partitions[k], st["p"])
        except Exception as e:  # noqa
            if status == "ok":
                problems.append({"step": i, "kind": "raises", "prop": st["p"],
                                 "what": "read raised %r; a fresh evaluation does not" % (e,)})
            continue
        if status != "ok":
            problems.append({"step": i, "kind": "fresh_raises", "prop": st["p"],
                             "what": "fresh evaluation raises %s but the scheduled read did not" % want})
        elif not same(got, want):
            problems.append({"step": i, "kind": "differs", "prop": st["p"],
                             "what": "read differs from a fresh evaluation on pristine copies"})
    # the rewrite model: a transforms object the model says is untouched must be untouched
    drift = []
    for x in xf:
        changed = xf[x] != xf0[x]
        if changed and beh["xfstate"][x - 1] == 0:
            drift.append("transforms object %d was edited although no partition over it was built" % x)
    return problems, drift


def random_schedule_problems(scn, rec, cfg, rng, length, recorder, only=None):
    """Direction B(i): a long random schedule over EVERY public property found by
    reflection, on all partitions of two cubes sharing the argument objects"""
    from cr.cube.cube import Cube
    resp0, xf0 = pristine(scn, rec, cfg)
    resp, xf = copy.deepcopy(resp0), copy.deepcopy(xf0)
    c1 = Cube(resp, transforms=xf)
    c2 = Cube(resp, transforms=xf)
    fresh_cube = Cube(copy.deepcopy(resp0), transforms=copy.deepcopy(xf0))
    fparts = fresh_cube.partitions
    # every public property: also those the re-index relation of C05 leaves out
    names = relation.public_props(fparts[0], skip=()) + ["row_order", "column_order"]
    if only:
        # a schedule concentrated on a few properties reads each of them many times
        names = [n for n in names if only(n)] or names
    fresh = {}
    problems = []
    for _ in range(length):
        cube = rng.choice([c1, c2])
        k = rng.randrange(len(fparts))
        p = rng.choice(names)
        if (k, p) not in fresh:
            # a fresh evaluation: new cube on pristine copies, one property only
            fc = Cube(copy.deepcopy(resp0), transforms=copy.deepcopy(xf0))
            try:
                fresh[(k, p)] = ("ok", read(fc.partitions[k], p))
            except Exception as e:  # noqa
                fresh[(k, p)] = ("raise", type(e).__name__)
        status, want = fresh[(k, p)]
        try:
            got = read(cube.partitions[k], p)
        except Exception as e:  # noqa
            if status == "ok" or want != type(e).__name__:
                problems.append({"kind": "raises", "prop": p,
                                 "what": "%s raised %r under the schedule; fresh: %s" % (p, e, status)})
            continue
        if status != "ok":
            problems.append({"kind": "fresh_raises", "prop": p,
                             "what": "%s: fresh evaluation raises %s, scheduled read does not" % (p, want)})
        elif not same(got, want):
            problems.append({"kind": "differs", "prop": p,
                             "what": "%s differs from a fresh evaluation after other reads" % p})
    return problems


# --------------------------------------------------------------------- repo tests under the hook
def record_repo_tests(max_tests, seed):
    """run (a sample of) the repository's integration tests in-process with the tracer
    installed; one trace per test"""
    import pytest
    traces = []

    class Plugin:
        def __init__(self):
            self.rec = None

        def pytest_runtest_call(self, item):
            pass

        @pytest.hookimpl(hookwrapper=True)
        def pytest_runtest_call(self, item):  # noqa: F811
            self.rec = Recorder()
            install(self.rec)
            try:
                yield
            finally:
                install(None)
                if self.rec.events and len(self.rec.events) <= 20000:
                    traces.append({"id": len(traces) + 1, "test": item.nodeid,
                                   "ev": self.rec.events})
                self.rec = None

        def pytest_collection_modifyitems(self, items):
            rng = random.Random(seed)
            rng.shuffle(items)
            del items[max_tests:]

    cwd = os.getcwd()
    os.chdir("/repo")
    try:
        devnull = open(os.devnull, "w")
        old = sys.stdout
        sys.stdout = devnull
        try:
            pytest.main(["-q", "-p", "no:cacheprovider", "-x", "--no-header", "-W", "ignore",
                         "tests/integration/test_cubepart.py",
                         "tests/integration/test_headers_and_subtotals.py",
                         "tests/integration/test_cube.py"], plugins=[Plugin()])
        finally:
            sys.stdout = old
    finally:
        os.chdir(cwd)
    return traces


# --------------------------------------------------------------------- the check
def run_check(tier, seed, t0):
    prop_id = "C18"
    known = runner.load_known_findings().get("findings", [])
    rng = random.Random(seed)
    triples = base_records(seed, want=3 if tier == "quick" else 8)
    if len(triples) < 2:
        print("MACHINERY-ERROR: could not obtain base records", file=sys.stderr)
        return 2
    hook_ok = install(None) is not False
    behs, stats, err = session_behaviours(seed, tier, fenced=True)
    if err:
        print("MACHINERY-ERROR: %s" % err, file=sys.stderr)
        return 2
    mismatches = []      # (Mismatch, replay payload)
    drift_lines = set()
    cache_traces = []
    n_replayed = 0
    n_reads = 0
    sample = None
    # responses / transforms objects: r, x in {1, 2} are taken from two base records of the
    # same scenario when possible (so x can be shared across r without losing references)
    by_scn = {}
    for t in triples:
        by_scn.setdefault(t[0]["name"], []).append(t)
    pools = [v for v in by_scn.values() if len(v) >= 2] or [triples[:2]]
    for bi, beh in enumerate(behs):
        pool = pools[bi % len(pools)]
        (s1, r1, c1), (s2, r2, c2) = pool[0], pool[1 % len(pool)]
        resp0 = {1: pristine(s1, r1, c1)[0], 2: pristine(s2, r2, c2)[0]}
        xf0 = {1: pristine(s1, r1, c1)[1], 2: pristine(s2, r2, c2)[1]}
        rec = Recorder()
        if hook_ok:
            install(rec)
        try:
            problems, drift = replay_behaviour(beh, resp0, xf0)
        finally:
            if hook_ok:
                install(None)
        n_replayed += 1
        n_reads += sum(1 for h in beh["hist"] if h["op"] == "read")
        if sample is None and len(beh["hist"]) >= 3:
            sample = {"hist": beh["hist"], "xfstate": beh["xfstate"]}
        for d in drift:
            drift_lines.add(d)
        for p in problems:
            mismatches.append((Mismatch(prop_id, None, "%s (schedule step %d of %s)" %
                                        (p["what"], p["step"], json.dumps(beh["hist"])[:300]), {},
                                        tags={"prop": p["prop"], "kind": p["kind"],
                                              "source": "session"}),
                               {"hist": beh["hist"], "scn": s1["name"]}))
        if rec.events and len(cache_traces) < (300 if tier == "quick" else 3000):
            cache_traces.append({"id": len(cache_traces) + 1, "ev": rec.events, "src": "session"})
    # Direction B(i): long random schedules over every public property
    n_random = 0
    bad = rejected_smoother_record(seed)
    for (s, r, c) in triples + ([bad] if bad else []):
        for rep in range(2 if tier == "quick" else 10):
            rec = Recorder()
            if hook_ok:
                install(rec)
            try:
                probs = random_schedule_problems(
                    s, r, c, rng, 120 if tier == "quick" else 400, rec,
                    only=(lambda n: n.startswith("smoothed") or n in ("counts", "column_proportions"))
                    if (bad and s is bad[0] and rep % 2 == 0) else None)
            finally:
                if hook_ok:
                    install(None)
            n_random += 1
            for p in probs:
                mismatches.append((Mismatch(prop_id, None, p["what"], {},
                                            tags={"prop": p["prop"], "kind": p["kind"],
                                                  "source": "random_schedule"}),
                                   {"scn": s["name"], "ci": r["ci"]}))
            if rec.events:
                cache_traces.append({"id": len(cache_traces) + 1, "ev": rec.events[:30000],
                                     "src": "random"})
    # results must not depend on the interpreter's hash seed either (iteration over a set of
    # enum members or strings): the same inputs evaluated in processes with different
    # PYTHONHASHSEED values give identical documents
    n_hash = 0
    try:
        n_hash, hash_problems = hash_seed_problems(triples, seed)
    except Exception as e:  # noqa
        print("MACHINERY-ERROR: hash-seed probe failed: %r" % (e,), file=sys.stderr)
        return 2
    for what, tags in hash_problems:
        mismatches.append((Mismatch(prop_id, None, what, {}, tags=tags), {}))
    # the same response as dict, as JSON text and inside a {"value": ...} envelope
    n_forms = 0
    from cr.cube.cube import Cube, CubeSet
    for (s_, r_, c_) in triples:
        resp0, xf0 = pristine(s_, r_, c_)
        forms = {"dict": lambda: copy.deepcopy(resp0), "text": lambda: json.dumps(resp0),
                 "envelope": lambda: {"value": copy.deepcopy(resp0)},
                 "envelope_text": lambda: json.dumps({"value": resp0})}
        ref = None
        for fname, mk in forms.items():
            try:
                parts = Cube(mk(), transforms=copy.deepcopy(xf0)).partitions
                vals = [[relation_to_py(read(p, q)) for q in PROPS] for p in parts]
            except Exception as e:  # noqa
                vals = "raise %r" % (e,)
            n_forms += 1
            if ref is None:
                ref = vals
            elif not _same(vals, ref):
                mismatches.append((Mismatch(prop_id, None,
                                            "the response given as %s yields different results "
                                            "than the same response given as a dict" % fname, {},
                                            tags={"kind": "form", "form": fname, "source": "forms"}),
                                   {"scn": s_["name"]}))
    # a numeric-measure cube set (0-D + 1-D member cubes, padded in place) in every form
    try:
        import multicube
        from scenarios import cat as _cat, scenario as _scenario
        yk = dict(yvals=(0, 1, 3), ymeasures=("mean",), valid_counts=True)
        sN, rN, _, e1 = multicube.records_for(_scenario("nm_nub", [], **yk), "c01", seed + 5, 1, 2)
        sNB, rNB, _, e2 = multicube.records_for(_scenario("nm_cat", [_cat("B", 3, miss=[2])], **yk),
                                                 "c01", seed + 6, 1)
        if not e1 and not e2 and rN and rNB:
            r0 = envelope.build_response(sN, rN[0], configs.DEFAULT)
            r1 = envelope.build_response(sNB, rNB[0], configs.DEFAULT)
            ref = None
            for fname, mk in (("dict", lambda r: copy.deepcopy(r)), ("text", json.dumps),
                              ("envelope", lambda r: {"value": copy.deepcopy(r)}),
                              ("envelope_text", lambda r: json.dumps({"value": r}))):
                for reuse in (False, True):
                    a, b = mk(r0), mk(r1)
                    try:
                        sets = [CubeSet([a, b], [{}, {}], None, 0)]
                        if reuse:       # a second set over the SAME (already padded) objects
                            sets.append(CubeSet([a, b], [{}, {}], None, 0))
                        vals = [[(type(p).__name__, relation_to_py(p.means)) for p in ps]
                                for cs in sets for ps in cs.partition_sets]
                        vals = vals[-1:]
                    except Exception as e:  # noqa
                        vals = "raise %r" % (e,)
                    n_forms += 1
                    if ref is None:
                        ref = vals
                    elif not _same(vals, ref):
                        mismatches.append((Mismatch(
                            prop_id, None,
                            "a numeric-measure cube set given as %s%s yields different partitions "
                            "than given as dicts: %s vs %s" %
                            (fname, " (objects reused for a second set)" if reuse else "",
                             str(vals)[:150], str(ref)[:150]), {},
                            tags={"kind": "form", "form": fname, "reuse": reuse,
                                  "source": "cubeset_forms"}), {}))
        # a cube set whose second member is a single-column filter cube (the server leaves out
        # the rows without respondents; the library restores them IN the caller's response):
        # further sets over the same response objects must agree with a set over pristine copies
        sF, rF, _, e3 = multicube.records_for(
            _scenario("fc_text", [_cat("A", 5, miss=[5], subtype="text", ids=[0, 1, 2, 3, -1])],
                      weighted=False, weights=[1]), "c06", seed + 9, 8, min_resp=1)
        if not e3:
            for ra, rb in zip(rF[::2], rF[1::2]):
                r0 = envelope.build_response(sF, ra, configs.DEFAULT)
                r1 = envelope.build_response(sF, rb, configs.DEFAULT)
                els = r1["result"]["dimensions"][0]["type"]["elements"]
                keep = [i for i, (el, n) in enumerate(zip(els, r1["result"]["counts"]))
                        if el["missing"] or n > 0]
                r1["result"]["dimensions"][0]["type"]["elements"] = [els[i] for i in keep]
                r1["result"]["counts"] = [r1["result"]["counts"][i] for i in keep]
                for m in r1["result"]["measures"].values():
                    m["data"] = [m["data"][i] for i in keep]
                r1["result"]["is_single_col_cube"] = True

                def fc_vals(a, b):
                    cs = CubeSet([a, b], [{}, {}], None, 0)
                    return [[(relation_to_py(p.counts), relation_to_py(p.unweighted_bases),
                              list(p.row_labels)) for p in ps] for ps in cs.partition_sets]
                try:
                    ref = fc_vals(copy.deepcopy(r0), copy.deepcopy(r1))
                except Exception as e:  # noqa
                    ref = "raise %r" % (e,)
                a, b = copy.deepcopy(r0), copy.deepcopy(r1)
                for nth in (1, 2, 3):
                    try:
                        vals = fc_vals(a, b)
                    except Exception as e:  # noqa
                        vals = "raise %r" % (e,)
                    n_forms += 1
                    if not _same(vals, ref):
                        mismatches.append((Mismatch(
                            prop_id, None,
                            "cube set with a single-column filter cube, set number %d over the same "
                            "response objects: %s, over pristine copies: %s" %
                            (nth, str(vals)[:150], str(ref)[:150]), {},
                            tags={"kind": "form", "form": "dict", "reuse": nth > 1,
                                  "source": "filter_cube_reuse"}), {}))
                        break
    except Exception as e:  # noqa
        print("MACHINERY-ERROR: forms check failed: %r" % (e,), file=sys.stderr)
        return 2
    # the repository's own integration tests under the hook
    repo_traces = []
    if hook_ok:
        repo_traces = record_repo_tests(60 if tier == "quick" else 100000, seed)
        for t in repo_traces:
            t["id"] = len(cache_traces) + 1
            cache_traces.append(t)
    # order the streams round-robin by source so that a budget cut keeps all kinds
    by_src = {}
    for t in cache_traces:
        by_src.setdefault(t.get("src") or "repo", []).append(t)
    cache_traces = [t for group in zip(*[v + [None] * 10 ** 4 for v in by_src.values()])
                    for t in group if t is not None][:len(cache_traces)]
    # The cache model is per (object, property): the events of different objects are
    # independent, so every recorded stream is split into one trace per object (small
    # cache functions keep TLC linear in the number of events).
    budget = 120000 if tier == "quick" else 3000000
    split = []
    total = 0
    for t in cache_traces:
        per_obj = {}
        for e in t["ev"]:
            per_obj.setdefault(e["o"], []).append(e)
        for o, evs in per_obj.items():
            if total + len(evs) > budget:
                break
            total += len(evs)
            split.append({"id": len(split) + 1, "ev": evs, "src": t.get("src") or t.get("test"),
                          # module-level singletons outlive the recording of one test
                          "pre": evs[0]["p"].startswith("_DimensionType.")})
    n_streams = len(cache_traces)
    cache_traces = split
    # validate the cache event streams with TLC
    acc, rej, verr = (set(), {}, None)
    if cache_traces:
        # one TLC run per chunk of <= 150k events (the JSON of a whole thorough run does not
        # fit TLC's heap); chunks are validated in parallel
        chunks, cur, n_ev = [], [], 0
        for t in cache_traces:
            if cur and n_ev + len(t["ev"]) > 150000:
                chunks.append(cur)
                cur, n_ev = [], 0
            cur.append(t)
            n_ev += len(t["ev"])
        if cur:
            chunks.append(cur)
        from concurrent.futures import ThreadPoolExecutor
        with ThreadPoolExecutor(max_workers=min(6, len(chunks))) as ex:
            outs = list(ex.map(lambda c: relation.validate(c, spec="TraceCache"), chunks))
        for a_, r_, e_ in outs:
            acc |= a_
            rej.update(r_)
            verr = verr or e_
        if verr:
            print("MACHINERY-ERROR: TraceCache validation: %s" % verr, file=sys.stderr)
            return 2
        for tid, (l, pname) in rej.items():
            tr = [t for t in cache_traces if t["id"] == tid][0]
            mismatches.append((Mismatch(prop_id, None,
                                        "cache event %d (%s) of a %s trace is not allowed by the cache "
                                        "model: %s" % (l, pname, tr.get("src") or tr.get("test"),
                                                       json.dumps(tr["ev"][l - 1])), {},
                                        tags={"prop": pname, "kind": "cache", "source": "hook"}),
                               {"trace": tr.get("test") or tr.get("src")}))
    # the design-level counterexample, regenerated without the fence and replayed
    known_lines = []
    cx = unfenced_counterexample(seed)
    if cx is not None:
        # replayed on pairs of base records over DIFFERENT responses until one of them shows
        # the loss (it needs transforms that reference items the two responses name differently)
        problems = []
        pairs = [(a, b) for a in triples for b in triples if a[0]["name"] != b[0]["name"]]
        for (s1, r1, c1), (s2, r2, c2) in pairs[:12]:
            resp0 = {1: pristine(s1, r1, c1)[0], 2: pristine(s2, r2, c2)[0]}
            xf0 = {1: pristine(s1, r1, c1)[1], 2: pristine(s2, r2, c2)[1]}
            problems, _ = replay_behaviour(cx, resp0, xf0)
            if problems:
                break
        for p in problems:
            mismatches.append((Mismatch(prop_id, None,
                                        "transforms object shared between cubes of DIFFERENT responses: "
                                        + p["what"], {},
                                        tags={"kind": p["kind"], "source": "unfenced",
                                              "shared_across_responses": True}),
                               {"hist": cx["hist"]}))
    # verdicts
    results = [{
        "scn": "session", "mode": "bfs+sim", "tlc_distinct": stats["states"],
        "generated": stats["generated"], "distinct": n_replayed,
        "evaluations": n_reads + n_random, "nontrivial": n_replayed + n_random,
        "features": {"schedules": n_replayed, "random_schedules": n_random, "forms": n_forms,
                     "hash_seed_process_pairs": n_hash,
                     "cache_traces": len(cache_traces), "cache_streams": n_streams,
                     "cache_events": total, "repo_test_traces": len(repo_traces),
                     "hook_installed": int(hook_ok),
                     "design_counterexample": int(cx is not None)},
        "samples": [sample] if sample else [],
        "mismatches": [{"mismatch": m.to_dict(), "record": payload, "job": {"scn": {"name": "session"}}}
                       for m, payload in mismatches[:60]],
        "error": None,
        "trace_counters": {"traces": len(cache_traces), "accepted": len(acc)},
        "wall_s": time.time() - t0,
    }]
    for d in sorted(drift_lines):
        print("DRIFT property=C18 %s" % d)
    return runner.finish(
        prop_id, tier, seed, "model_checking", results, t0,
        rule="Session.tla behaviours (all schedules of <= %d Construct/Read steps over 2 "
             "responses, 2 transforms objects, 2 cubes, 2 partitions, exhaustively; deeper by "
             "simulation) replayed on live objects built from spec-emitted payloads of "
             "array-type 3-D responses with element-referencing transforms; every read compared "
             "with a fresh evaluation on pristine copies; plus long random schedules over every "
             "public property; the lazyproperty event streams of all of these and of the "
             "repository's integration tests validated by TLC against TraceCache.tla"
             % (3 if tier == "quick" else 4),
        assumptions=["TLC; the hook in src/cr/cube/util.py reports every lazyproperty access",
                     "equality of results is NaN-aware structural equality"],
        feature_floor=("schedules", "random_schedules", "cache_traces") + (
            ("repo_test_traces",) if hook_ok else ()))
