#!/venv/bin/python
"""Confirm and file the deliverables of a red-team sub-agent.

usage: seedingest.py <out dir> [<out dir> ...]

For every m<k>.diff / m<k>_demo.py / m<k>_meta.json in an out dir (named out_<ID> or
out2_<ID>) the change is confirmed in a scratch export of /repo's HEAD under /var/tmp:
the patch applies, the repository's test suite still passes with it (apart from the one
test tied to the emptied fixture), the demo exits 0 on the unchanged tree and 1 with the
change.  Confirmed changes are filed as /verif/seeded/<ID>-m<k>/ (patch.diff, demo.py,
meta.json); the others are reported and skipped.
"""
import json
import os
import re
import shutil
import subprocess
import sys
import tempfile
from concurrent.futures import ThreadPoolExecutor

VERIF = os.path.dirname(os.path.dirname(os.path.abspath(__file__)))
KNOWN_FAIL = "test_profiles_percentages_add_up_to_100"


def sh(cmd, **kw):
    return subprocess.run(cmd, shell=True, capture_output=True, text=True, **kw)


def py_in(tree, code_or_file, is_file=False, cwd=None):
    pre = ("import cr; cr.__path__.insert(0, %r); import cr.cube; "
           "assert cr.cube.__file__.startswith(%r); " % (os.path.join(tree, "src", "cr"), tree))
    if is_file:
        body = ("import runpy, sys; sys.argv=[%r]; runpy.run_path(%r, run_name='__main__')"
                % (code_or_file, code_or_file))
    else:
        body = code_or_file
    env = dict(os.environ, PYTHONPATH=os.path.join(tree, "src"))
    return sh("/venv/bin/python -c %r" % (pre + body), env=env, cwd=cwd or tree)


def confirm(out_dir, pid, k):
    diff = os.path.join(out_dir, "m%d.diff" % k)
    demo = os.path.join(out_dir, "m%d_demo.py" % k)
    meta = os.path.join(out_dir, "m%d_meta.json" % k)
    name = "%s-m%d" % (pid, k)
    if not (os.path.exists(diff) and os.path.exists(demo)):
        return name, "missing files", None
    tree = tempfile.mkdtemp(prefix="ingest_", dir="/var/tmp")
    try:
        sh("git -C /repo archive HEAD src tests | tar -x -C %s" % tree)
        # the demos refer to fixtures by absolute path inside the agent's worktree
        text = open(demo).read()
        text = re.sub(r"/tmp/wt/%s(?=/)" % pid, tree, text)
        demo2 = os.path.join(tree, "demo_%s.py" % name)
        open(demo2, "w").write(text)
        r0 = py_in(tree, demo2, is_file=True)
        a = sh("cd %s && patch -p1 --no-backup-if-mismatch < %s" % (tree, diff))
        if a.returncode != 0:
            return name, "patch does not apply: %s" % (a.stdout + a.stderr)[-300:], None
        r1 = py_in(tree, demo2, is_file=True)
        t = py_in(tree, "import pytest, sys; sys.exit(pytest.main(['-q', '-p', 'no:cacheprovider', "
                        "'tests', '--no-header', '-W', 'ignore']))")
        failed = re.findall(r"^FAILED (\S+)", t.stdout, re.M)
        other = [f for f in failed if KNOWN_FAIL not in f]
        m = re.search(r"(\d+) passed", t.stdout)
        res = {"demo_unchanged_exit": r0.returncode, "demo_changed_exit": r1.returncode,
               "suite_failed": other, "suite_passed": int(m.group(1)) if m else None}
        ok = r0.returncode == 0 and r1.returncode == 1 and not other and m
        if not ok:
            return name, "not confirmed: %s" % json.dumps(res), None
        return name, None, (diff, demo, meta, text, res)
    finally:
        shutil.rmtree(tree, ignore_errors=True)


def main():
    tasks = []
    for out_dir in sys.argv[1:]:
        out_dir = os.path.abspath(out_dir)
        pid = re.search(r"(C\d\d)", os.path.basename(out_dir)).group(1)
        for f in sorted(os.listdir(out_dir)):
            m = re.match(r"m(\d+)\.diff$", f)
            if m:
                tasks.append((out_dir, pid, int(m.group(1))))
    with ThreadPoolExecutor(max_workers=5) as ex:
        results = list(ex.map(lambda t: confirm(*t), tasks))
    for (out_dir, pid, k), (name, err, payload) in zip(tasks, results):
        if err:
            print("%s: %s" % (name, err))
            continue
        diff, demo, meta, demo_text, res = payload
        d = os.path.join(VERIF, "seeded", name)
        os.makedirs(d, exist_ok=True)
        shutil.copy(diff, os.path.join(d, "patch.diff"))
        # the filed demo takes the tree from PYTHONPATH (fixtures relative to it)
        text = re.sub(r"/tmp/wt/%s(?=/)" % pid, "/repo", open(demo).read())
        open(os.path.join(d, "demo.py"), "w").write(text)
        md = {}
        if os.path.exists(meta):
            try:
                md = json.load(open(meta))
            except ValueError:
                md = {"summary": open(meta).read()[:2000]}
        md.update({"property": pid, "confirmed": res,
                   "how_run": "harness/seedtest.py seeded/%s <check ids> [--scratch]" % name})
        json.dump(md, open(os.path.join(d, "meta.json"), "w"), indent=1)
        print("%s: confirmed and filed (%s)" % (name, json.dumps(res)))
    return 0


if __name__ == "__main__":
    sys.exit(main())
