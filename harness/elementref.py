"""C19: equivalence of the spellings of an array-item reference.

spec/ElementRef.tla enumerates id schemes and says, for every candidate reference, which
item it denotes.  For each scheme the real library is evaluated with that reference in
every transform slot and with the alias of the denoted item (or with no reference when it
denotes nothing); the two outputs must be identical."""
import copy
import json
import os
import sys
import time

import numpy as np

import configs
import envelope
import runner
import session
from runner import Mismatch
from tlcrun import TLCRun

N = 3
SLOTS = ["hide", "rename", "explicit", "fixed_top", "fixed_bottom", "opposing_element"]


def py_value(v):
    return v["s"] if v["t"] == "s" else v["i"] if v["t"] == "i" else None


def schemes(seed, tier):
    defs = {
        "MC_AliasPool": '{"p", "1", "2", "0"}',
        "MC_SvidPool": '{"0001", "1", "2", "p"}',
        "MC_EidPool": "{0, 1, 2, 3}",
        "MC_Numeric": '[s \\in {"0", "1", "2", "3", "7", "-1"} |-> CASE s = "0" -> 0 [] s = "1" -> 1 '
                      '[] s = "2" -> 2 [] s = "3" -> 3 [] s = "7" -> 7 [] s = "-1" -> -1]',
        "MC_ExtraStrs": '{"zz", ""}',
        "MC_ExtraInts": "{7, -1}",
        # the usual layout (1-based element ids, so that "0" / 0 is a position, zero-padded
        # sub-variable ids) and one whose numeric strings collide across the three id kinds
        "MC_Pinned": '{[alias |-> <<"p", "1", "2">>, svid |-> <<"0001", "p", "2">>, '
                     'eid |-> <<1, 2, 3>>, ins |-> {}], '
                     '[alias |-> <<"p", "0", "2">>, svid |-> <<"1", "2", "0001">>, '
                     'eid |-> <<3, 1, 2>>, ins |-> {1}]}',
        "MC_Canon": '[i \\in {0, 1, 2, 3} |-> CASE i = 0 -> "0" [] i = 1 -> "1" [] i = 2 -> "2" '
                    '[] i = 3 -> "3"]',
    }
    cfg = ["CONSTANTS", "  N = %d" % N, "  AliasPool <- MC_AliasPool", "  SvidPool <- MC_SvidPool",
           "  EidPool <- MC_EidPool", "  Numeric <- MC_Numeric", "  ExtraStrs <- MC_ExtraStrs",
           "  ExtraInts <- MC_ExtraInts", "  Canon <- MC_Canon", "  Pinned <- MC_Pinned", "  SimMode = %s", "  Sample = %d" % (3 if tier == "quick" else 8),
           "SPECIFICATION Spec", "CHECK_DEADLOCK FALSE",
           "INVARIANT ThmAliasAndEidResolve", "INVARIANT ThmRewriteIdempotent",
           "INVARIANT ThmDtIdAndValueAgree", "INVARIANT ThmSpelledEidAgrees"]
    stats = {"states": 0, "generated": 0}
    # the two spec theorems are checked on ALL schemes (no emission, fast)
    run = TLCRun("eref.all", "ElementRef", defs,
                 [c % "FALSE" if c.endswith("%s") else c for c in cfg], mode="bfs")
    try:
        for _ in run:
            pass
        stats["states"] += run.distinct
        stats["generated"] += run.generated
        err = run.error
    finally:
        run.close()
    if err:
        return [], stats, err
    # a seeded sample of schemes is emitted and replayed
    run = TLCRun("eref.sample", "ElementRef", defs,
                 [c % "TRUE" if c.endswith("%s") else c for c in cfg] + ["INVARIANT EmitInv"],
                 mode="bfs", seed=seed + 1)
    out = {}
    try:
        for rec in run:
            out[json.dumps([rec["alias"], rec["svid"], rec["eid"], sorted(rec["ins"])])] = rec
        stats["generated"] += run.generated
        err = run.error
    finally:
        run.close()
    return list(out.values()), stats, err


def base_record(scn, seed):
    """one spec-emitted state with some data for the scenario"""
    job = runner.make_job(dict(scn, max_resp=4), "c01", ("replay_basic", "replay"), mode="sim",
                          seed=seed, sim_num=30, sim_depth=6, sim_max_resp=5, prop_id="C19")
    run = TLCRun(scn["name"] + ".c19", job["root"], job["defs"], job["cfg"], mode="sim",
                 sim_num=30, sim_depth=6, seed=seed)
    best = None
    try:
        for rec in run:
            if best is None or rec["nresp"] > best["nresp"]:
                best = rec
    finally:
        run.close()
    return job["scn"], best


def with_scheme(scn, side, sch):
    """the scenario with the array dimension on `side` carrying the scheme's identifiers"""
    s = copy.deepcopy(scn)
    ri, ci = envelope.slice_dim_indexes(s["dims"])
    d = s["dims"][ri if side == "rows" else ci]
    d["aliases"] = list(sch["alias"])
    d["svids"] = list(sch["svid"])
    d["ids"] = list(sch["eid"])
    return s


def transforms_for(slot, side, value, present=True):
    """transforms dict placing `value` in `slot` of the array dimension on `side`"""
    dim = "rows_dimension" if side == "rows" else "columns_dimension"
    opp = "columns_dimension" if side == "rows" else "rows_dimension"
    refs = [value] if present else []
    if slot == "hide":
        return {dim: {"elements": {str(value): {"hide": True}} if present else {}}}
    if slot in ("hide_kalias", "hide_ksvid"):
        # element transforms that declare what their keys are
        d = {"key": "alias" if slot == "hide_kalias" else "subvar_id"}
        if present:
            d[str(value)] = {"hide": True}
        return {dim: {"elements": d}}
    if slot == "rename":
        return {dim: {"elements": {str(value): {"name": "RENAMED"}} if present else {}}}
    if slot == "explicit":
        return {dim: {"order": {"type": "explicit", "element_ids": refs}}}
    if slot == "fixed_top":
        return {dim: {"order": {"type": "label", "direction": "ascending", "fixed": {"top": refs}}}}
    if slot == "fixed_bottom":
        return {dim: {"order": {"type": "label", "direction": "ascending",
                                "fixed": {"bottom": refs}}}}
    if slot == "opposing_element":
        if not present:
            return {}
        return {opp: {"order": {"type": "opposing_element", "element_id": value,
                                "measure": "count_unweighted"}}}
    raise ValueError(slot)


def observe(resp, xf):
    from cr.cube.cube import Cube
    part = Cube(copy.deepcopy(resp), transforms=copy.deepcopy(xf)).partitions[0]
    return {
        "row_labels": session.relation_to_py(part.row_labels),
        "column_labels": session.relation_to_py(part.column_labels),
        "row_order": session.relation_to_py(part.row_order()),
        "column_order": session.relation_to_py(part.column_order()),
        "counts": session.relation_to_py(part.counts),
    }


def run_check(tier, seed, t0):
    from scenarios import cat, mr, caitems, cacat, scenario
    prop_id = "C19"
    schs, stats, err = schemes(seed, tier)
    if err:
        print("MACHINERY-ERROR: %s" % err, file=sys.stderr)
        return 2
    base_cache = {}

    def get_base(kind, side, ins):
        """(scenario, one spec-emitted state) for an MR / CA dimension on `side`; the MR items
        in `ins` are server-inserted (derived from the base items, anchored top / bottom)"""
        key = (kind, side, ins)
        if key not in base_cache:
            der = {k: {"of": [b for b in range(1, N + 1) if b not in ins],
                       "at": ("top", "bottom")[i % 2]} for i, k in enumerate(ins)}
            tag = ".ins" + "".join(map(str, ins)) if ins else ""
            if kind == "ca":
                scn = scenario("casub_x_cacat", [caitems("A", N), cacat("A", 3)])
            elif side == "rows":
                scn = scenario("mr_x_cat" + tag, [mr("A", N, derived=der or None), cat("B", 3, miss=[2])])
            else:
                scn = scenario("cat_x_mr" + tag, [cat("A", 3), mr("B", N, derived=der or None)])
            base_cache[key] = base_record(scn, seed)
        return base_cache[key]

    mismatches = []
    feats = {}
    evals = 0
    n_pairs = 0
    sample = None
    kinds = (("mr", "rows"), ("mr", "cols"), ("ca", "rows"))
    for si, sch in enumerate(schs):
        kind, side = kinds[si % len(kinds)]
        ins = tuple(sorted(sch["ins"])) if kind == "mr" else ()
        scn0, rec = get_base(kind, side, ins)
        if rec is None:
            print("MACHINERY-ERROR: no base record for %s" % scn0["name"], file=sys.stderr)
            return 2
        scn = with_scheme(scn0, side, sch)
        resp = envelope.build_response(scn, rec, configs.DEFAULT)
        # the same response with the base items of the derived array flagged derived
        # themselves (only meaningful under payload order: hide / rename slots)
        resp_bd = None
        if ins:
            scn_bd = with_scheme(scn0, side, sch)
            ri, ci = envelope.slice_dim_indexes(scn_bd["dims"])
            scn_bd["dims"][ri if side == "rows" else ci]["base_derived"] = True
            resp_bd = envelope.build_response(scn_bd, rec, configs.DEFAULT)
        memo = {}

        def out_for(slot, value, present=True, bd=False):
            key = (slot, json.dumps(value), present, bd)
            if key not in memo:
                try:
                    memo[key] = ("ok", observe(resp_bd if bd else resp,
                                               transforms_for(slot, side, value, present)))
                except Exception as e:  # noqa
                    memo[key] = ("raise", repr(e))
            return memo[key]

        for ref in sch["refs"]:
            v = ref["v"]
            item, rule = (ref["item"], ref["rule"]) if kind == "mr" else (ref["plain"], ref["plainrule"])
            value = py_value(v)
            for slot, bd in [(sl, False) for sl in SLOTS + ["hide_kalias", "hide_ksvid"]] + (
                    [("hide", True), ("rename", True)] if resp_bd is not None else []):
                if slot in ("hide", "rename", "hide_kalias", "hide_ksvid"):
                    if v["t"] != "s":
                        continue      # JSON object keys are strings
                if slot == "hide_kalias":
                    item, rule = ref["kalias"], 8
                elif slot == "hide_ksvid":
                    item, rule = ref["ksvid"], 9
                else:
                    item, rule = ((ref["item"], ref["rule"]) if kind == "mr"
                                  else (ref["plain"], ref["plainrule"]))
                got = out_for(slot, value, bd=bd)
                if item:
                    # the alias spelling in the plain slot is the reference output
                    want = out_for("hide" if slot.startswith("hide_k") else slot,
                                   sch["alias"][item - 1], bd=bd)
                else:
                    want = out_for("hide" if slot.startswith("hide_k") else slot, None,
                                   present=False, bd=bd)
                evals += 1
                n_pairs += 1
                feats["rule%d" % rule] = feats.get("rule%d" % rule, 0) + 1
                feats["slot_" + slot] = feats.get("slot_" + slot, 0) + 1
                if ins:
                    feats["mr_view_insertions"] = feats.get("mr_view_insertions", 0) + 1
                if got != want:
                    what = ("%s=%r in slot %s (%s dimension%s, aliases %s, sub-variable ids %s, element "
                            "ids %s): denotes %s by rule %s but the output %s" %
                            (v["t"], value, slot, side,
                             (" with server-inserted items %s%s" % (list(ins), ", base items flagged "
                                                                    "derived" if bd else "")) if ins else "",
                             sch["alias"], sch["svid"], sch["eid"],
                             ("item %d" % item) if item else "nothing",
                             "2b" if rule == 7 else rule,
                             "raises %s" % got[1] if got[0] == "raise" else
                             "differs from the output of the alias spelling" if item else
                             "differs from the output without the reference"))
                    mismatches.append((Mismatch(prop_id, None, what, {},
                                                tags={"slot": slot, "rule": rule, "vtype": v["t"],
                                                      "resolves": bool(item),
                                                      "raises": got[0] == "raise",
                                                      "side": side, "mr_ins": bool(ins),
                                                      "base_derived": bd}),
                                       {"scheme": {k: sch[k] for k in ("alias", "svid", "eid", "ins")},
                                        "ref": ref, "slot": slot, "scn": scn0["name"]}))
        if sample is None:
            sample = {"alias": sch["alias"], "svid": sch["svid"], "eid": sch["eid"],
                      "refs": sch["refs"][:6]}
    # datetime dimensions: position id vs value
    if schs:
        for scn0, side in ((scenario("cat_x_datetime", [cat("A", 3), cat("B", N, subtype="datetime")]), "cols"),
                           (scenario("datetime_x_cat", [cat("A", N, subtype="datetime"), cat("B", 3, miss=[2])]), "rows")):
            s0, rec = base_record(scn0, seed + 9)
            if rec is None:
                continue
            resp = envelope.build_response(s0, rec, configs.DEFAULT)

            def dt_py(v):
                if v["t"] == "s" and v["s"].startswith("d") and v["s"][1:].isdigit():
                    return "2021-%02d" % int(v["s"][1:])
                return py_value(v)

            memo = {}

            def dt_out(slot, value, present=True):
                key = (slot, json.dumps(value), present)
                if key not in memo:
                    try:
                        memo[key] = ("ok", observe(resp, transforms_for(slot, side, value, present)))
                    except Exception as e:  # noqa
                        memo[key] = ("raise", repr(e))
                return memo[key]

            for ref in schs[0]["dtrefs"]:
                v, item = ref["v"], ref["item"]
                value = dt_py(v)
                for slot in SLOTS:
                    if slot in ("hide", "rename") and v["t"] != "s":
                        continue
                    got = dt_out(slot, value)
                    want = (dt_out(slot, "2021-%02d" % item) if item
                            else dt_out(slot, None, present=False))
                    evals += 1
                    n_pairs += 1
                    feats["datetime"] = feats.get("datetime", 0) + 1
                    if got != want:
                        mismatches.append((Mismatch(
                            prop_id, None,
                            "datetime %s dimension: reference %r in slot %s denotes %s but the output %s" %
                            (side, value, slot, ("element %d" % item) if item else "nothing",
                             "raises %s" % got[1] if got[0] == "raise" else "differs from the "
                             "output of the value spelling" if item else "differs from the output "
                             "without the reference"), {},
                            tags={"slot": slot, "datetime": True, "vtype": v["t"],
                                  "resolves": bool(item), "raises": got[0] == "raise", "side": side}),
                            {"ref": ref, "slot": slot, "scn": scn0["name"]}))
    results = [{
        "scn": "elementref", "mode": "bfs+sim", "tlc_distinct": stats["states"],
        "generated": stats["generated"], "distinct": len(schs), "evaluations": evals,
        "nontrivial": n_pairs, "features": feats, "samples": [sample] if sample else [],
        "mismatches": [{"mismatch": m.to_dict(), "record": payload,
                        "job": {"scn": {"name": "elementref"}}} for m, payload in mismatches[:80]],
        "error": None, "wall_s": time.time() - t0,
    }]
    return runner.finish(
        prop_id, tier, seed, "model_checking", results, t0,
        rule="ElementRef.tla: the resolution theorems checked by TLC on all id schemes "
             "(13,824 identifier assignments x 7 sets of server-inserted items) over the "
             "adversarial alphabets; a seeded sample of schemes emitted with "
             "the item every candidate reference (aliases, sub-variable ids, element ids as int "
             "and string, positions, stale, empty, negative, null) denotes; for MR rows, MR "
             "columns and CA items x slots {hide, rename, explicit order, fixed top, fixed "
             "bottom, sort by opposing element} the library's output with the reference is "
             "compared with its output with the alias of the denoted item (or without the "
             "reference)",
        assumptions=["TLC", "payloads are spec-emitted states of the same scenarios"],
        feature_floor=("rule1", "rule2", "rule3", "rule4", "rule5", "rule6", "rule7", "mr_view_insertions", "slot_hide",
                       "slot_explicit", "slot_opposing_element", "datetime"))
