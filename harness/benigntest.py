#!/venv/bin/python
"""False-alarm test: a change that keeps every property (a refactoring delivered by a
sub-agent as m<k>.diff + m<k>_meta.json) is applied to a scratch export of /repo's HEAD, the
repository's suite is run with it, and the named checks must stay silent (exit 0).

usage: benigntest.py <out dir> <check id> [<check id> ...]
Files the change under /verif/seeded_benign/<ID>-m<k>/ with result.json."""
import json
import os
import re
import shutil
import subprocess
import sys
import tempfile
import time

VERIF = os.path.dirname(os.path.dirname(os.path.abspath(__file__)))


def sh(cmd, **kw):
    return subprocess.run(cmd, shell=True, capture_output=True, text=True, **kw)


def main():
    out_dir = os.path.abspath(sys.argv[1])
    checks = sys.argv[2:]
    pid = re.search(r"(C\d\d)", os.path.basename(out_dir)).group(1)
    rc = 0
    for f in sorted(os.listdir(out_dir)):
        m = re.match(r"m(\d+)\.diff$", f)
        if not m:
            continue
        name = "%s-m%s" % (pid, m.group(1))
        tree = tempfile.mkdtemp(prefix="benign_", dir="/var/tmp")
        out = tempfile.mkdtemp(prefix="benignout_", dir="/var/tmp")
        res = {"ran_at": time.strftime("%Y-%m-%d %H:%M:%S"), "checks": {},
               "repo_head": sh("git -C /repo rev-parse --short HEAD").stdout.strip()}
        try:
            sh("git -C /repo archive HEAD src tests | tar -x -C %s" % tree)
            a = sh("cd %s && patch -p1 --no-backup-if-mismatch < %s" % (tree, os.path.join(out_dir, f)))
            if a.returncode != 0:
                print("%s: patch does not apply" % name)
                continue
            pre = ("import cr; cr.__path__.insert(0, %r); import cr.cube; import pytest, sys; "
                   "sys.exit(pytest.main(['-q', '-p', 'no:cacheprovider', 'tests', '--no-header', "
                   "'-W', 'ignore']))" % os.path.join(tree, "src", "cr"))
            t = sh("/venv/bin/python -c %r" % pre, cwd=tree)
            failed = [x for x in re.findall(r"^FAILED (\S+)", t.stdout, re.M)
                      if "test_profiles_percentages_add_up_to_100" not in x]
            res["suite_failed"] = failed
            env = dict(os.environ, VERIF_REPO_SRC=os.path.join(tree, "src"), VERIF_OUT=out)
            for c in checks:
                t0 = time.time()
                r = sh("cd %s && ./check %s" % (VERIF, c), env=env)
                detail = [l.strip() for l in r.stdout.splitlines() if l.startswith("  ")][:1]
                res["checks"][c] = {"exit": r.returncode, "first": detail,
                                    "wall_s": round(time.time() - t0, 1),
                                    "stderr": r.stderr[-300:] if r.returncode == 2 else ""}
                print("%s: %s exit=%d %s" % (name, c, r.returncode, (detail[0][:220] if detail else "")))
                if r.returncode != 0:
                    rc = 1
        finally:
            shutil.rmtree(tree, ignore_errors=True)
            shutil.rmtree(out, ignore_errors=True)
        d = os.path.join(VERIF, "seeded_benign", name)
        os.makedirs(d, exist_ok=True)
        shutil.copy(os.path.join(out_dir, f), os.path.join(d, "patch.diff"))
        meta = os.path.join(out_dir, "m%s_meta.json" % m.group(1))
        if os.path.exists(meta):
            shutil.copy(meta, os.path.join(d, "meta.json"))
        json.dump(res, open(os.path.join(d, "result.json"), "w"), indent=1)
    return rc


if __name__ == "__main__":
    sys.exit(main())
