"""Direction A replayer for the value families (C01-C03 and later the derived measures):
feed the spec's payload to the real Cube, compare every output the spec emitted."""
import warnings

import numpy as np

from cr.cube.cube import Cube

import envelope
from project import compare, to_py
from runner import Mismatch

# outputs that are not library properties but projections computed here
PSEUDO = {"row_pos", "column_pos"}

YPROP_MEASURE = {"means": "mean", "sums": "sum", "stddev": "stddev", "medians": "median"}


def _labels_to_pos(dim, labels):
    names = {}
    for p in range(1, dim["n"] + 1):
        if dim["kind"] in ("mr", "caitems", "numarr"):
            names[envelope._item_name(dim, p)] = p
        elif dim.get("subtype") == "datetime":
            import datetime
            names[datetime.datetime(2021, p, 1).strftime("%b %Y")] = p
        elif dim.get("subtype") == "binned":
            names["%d-%d" % (10 * (p - 1), 10 * p)] = p
        else:
            names[envelope._cat_name(dim, p)] = p
    return [names.get(l, "?" + str(l)) for l in labels]


def slice_dims(scn):
    dims = scn["dims"]
    if len(dims) == 3:
        return dims[1], dims[2]
    if len(dims) == 2:
        return dims[0], dims[1]
    return dims[0], None


def observe(part, prop, scn):
    if prop == "row_pos":
        rd, _ = slice_dims(scn)
        return _labels_to_pos(rd, list(part.row_labels))
    if prop == "column_pos":
        _, cd = slice_dims(scn)
        return _labels_to_pos(cd, list(part.column_labels))
    obj = part
    for name in prop.split("__"):
        obj = getattr(obj, name)
    return obj


def features_of(rec, scn):
    f = []
    flat = rec["flat"]
    if sum(flat["counts"]) == 0:
        f.append("empty_data")
    if flat["counts"] != flat["count"]:
        f.append("weights_differ")
    return f


def replay(job, rec):
    """-> {"evaluations": n, "mismatches": [...], "nontrivial": bool, "features": [...]}"""
    scn = job["scn"]
    prop_id = job["prop_id"]
    only = job.get("only_props")
    resp = envelope.build_response(scn, rec)
    mism = []
    evals = 0
    feats = features_of(rec, scn)
    with warnings.catch_warnings(record=True) as wlog:
        warnings.simplefilter("always")
        try:
            cube = Cube(resp, population=scn.get("population"), mask_size=scn["min_base"],
                        transforms=rec.get("xf"))
            parts = cube.partitions
        except Exception as e:  # noqa
            mism.append(Mismatch(prop_id, "construct|raises=%s" % type(e).__name__,
                                 "constructing partitions raised %r" % (e,), {}))
            return {"evaluations": 1, "mismatches": mism, "nontrivial": True, "features": feats}
        if len(parts) != len(rec["parts"]):
            mism.append(Mismatch(prop_id, "partitions|count",
                                 "library yields %d partitions, spec %d" %
                                 (len(parts), len(rec["parts"])), {}))
            return {"evaluations": 1, "mismatches": mism, "nontrivial": True, "features": feats}
        for k, (part, exp) in enumerate(zip(parts, rec["parts"])):
            for prop, e in exp.items():
                if only and prop not in only:
                    continue
                if prop in YPROP_MEASURE and YPROP_MEASURE[prop] not in scn.get("ymeasures", ()):
                    continue
                evals += 1
                nwarn = len(wlog)
                try:
                    obs = observe(part, prop, scn)
                except Exception as ex:  # noqa
                    mism.append(Mismatch(prop_id, "prop=%s|raises=%s" % (prop, type(ex).__name__),
                                         "%s raised %r (partition %d)" % (prop, ex, k),
                                         {"partition": k}))
                    continue
                if len(wlog) > nwarn and job.get("report_warnings"):
                    w = wlog[-1]
                    feats.append("runtime_warning")
                    mism.append(Mismatch(prop_id, "prop=%s|warns=%s" % (prop, w.category.__name__),
                                         "%s emitted %s: %s" % (prop, w.category.__name__, w.message),
                                         {}, severity="drift"))
                errs = compare(obs, e)
                if errs:
                    path, o, x = errs[0]
                    mism.append(Mismatch(
                        prop_id, "prop=%s" % prop,
                        "%s[%s] partition %d: library %r, spec %r" %
                        (prop, ",".join(map(str, path)), k, o, x),
                        {"partition": k, "observed": to_py(obs), "expected": e}))
    return {"evaluations": evals, "mismatches": mism,
            "nontrivial": "empty_data" not in feats, "features": feats}
