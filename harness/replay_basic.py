"""Direction A replayer for the value families: feed the spec's payload and configuration
to the real Cube, compare every output the spec emitted."""
import datetime
import warnings

from cr.cube.cube import Cube

import configs
import envelope
from project import compare, to_py
from runner import Mismatch

YPROP_MEASURE = {"means": "mean", "sums": "sum", "stddev": "stddev", "medians": "median",
                 "smoothed_means": "mean"}


def _labels_to_pos(dim, labels, dc=None, live=None):
    names = {}
    if dc is not None and live:
        src = dc["xins"] if dc["hasx"] else dc["vins"]
        for s_idx, src_idx in enumerate(live):
            names.setdefault(src[src_idx - 1]["name"], -(s_idx + 1))
    for p in range(1, dim["n"] + 1):
        if dim["kind"] in ("mr", "caitems", "numarr"):
            names[envelope._item_name(dim, p)] = p
        elif dim.get("subtype") == "datetime":
            names[datetime.datetime(2021, p, 1).strftime("%b %Y")] = p
        elif dim.get("subtype") == "binned":
            names["%d-%d" % (10 * (p - 1), 10 * p)] = p
        else:
            names[envelope._cat_name(dim, p)] = p
    return [names.get(l, "?" + str(l)) for l in labels]


def slice_dims(scn):
    dims = scn["dims"]
    if not dims:
        return None, None
    ri, ci = envelope.slice_dim_indexes(dims)
    return dims[ri], (dims[ci] if ci is not None else None)


def kind_name(dim):
    if dim is None:
        return "-"
    if dim.get("date"):
        return "catdate"
    return dim.get("subtype") or dim["kind"]


PW_METHODS = {"pairwise_t_stats": "pairwise_significance_t_stats",
              "pairwise_p_vals": "pairwise_significance_p_vals",
              "pairwise_means_t_stats": "pairwise_significance_means_t_stats",
              "pairwise_means_p_vals": "pairwise_significance_means_p_vals"}


def expand_expectations(exp, cfg):
    """flatten per-selected-column lists into single expectations keyed 'name@i' and attach
    the thresholds the index sets are judged with"""
    out = {}
    pw = cfg.get("pairwise") or {}
    alphas = sorted(pw.get("alpha") or [0.05])
    for prop, e in exp.items():
        if isinstance(e, list):
            for i, ei in enumerate(e):
                out["%s@%d" % (prop, i)] = ei
        elif isinstance(e, dict) and e.get("k") == "pwidx":
            out[prop] = dict(e, alpha=alphas[0], only_larger=pw.get("only_larger", True))
            if len(alphas) > 1:
                out[prop + "_alt"] = dict(e, alpha=alphas[1],
                                          only_larger=pw.get("only_larger", True))
        else:
            out[prop] = e
    return out


def observe(part, prop, scn, cfg, aux):
    if "@" in prop:
        name, i = prop.split("@")
        if name == "legacy_pairwise_t_stats":
            return part.pairwise_significance_tests[int(i)].t_stats
        return getattr(part, PW_METHODS[name])(int(i))
    if prop == "row_pos":
        rd, _ = slice_dims(scn)
        return _labels_to_pos(rd, list(part.row_labels), cfg["rows"], aux.get("rsubs"))
    if prop == "column_pos":
        _, cd = slice_dims(scn)
        return _labels_to_pos(cd, list(part.column_labels), cfg["cols"], aux.get("csubs"))
    if prop == "payload_order":
        return [x if str(x).startswith("ins_") else int(x) for x in to_py(part.payload_order)]
    if prop in ("row_order_signed", "column_order_signed"):
        return getattr(part, prop[:-7])()
    if prop in ("row_order_bogus", "column_order_bogus"):
        from cr.cube.enums import ORDER_FORMAT
        return [x if str(x).startswith("ins_") else int(x)
                for x in to_py(getattr(part, prop[:-6])(format=ORDER_FORMAT.BOGUS_IDS))]
    obj = part
    for name in prop.split("__"):
        obj = getattr(obj, name)
    return obj


def features_of(rec, scn, aux):
    f = []
    flat = rec["flat"]
    if sum(flat["counts"]) == 0:
        f.append("empty_data")
    if [[c, 1] for c in flat["counts"]] != [list(c) for c in flat["count"]]:
        f.append("weights_differ")
    if aux:
        if any(r < 0 for r in aux["rows"]):
            f.append("ins_rows")
        if any(c < 0 for c in aux["cols"]):
            f.append("ins_cols")
        if any(aux["rdiff"]):
            f.append("diff_rows")
        if any(aux["cdiff"]):
            f.append("diff_cols")
        if any(aux["rdiff"]) and any(aux["cdiff"]):
            f.append("diff_x_diff")
        if any(r < 0 for r in aux["rows"]) and any(c < 0 for c in aux["cols"]):
            f.append("intersection")
    return f


def cell_tags(path, nd, aux, two_d):
    """where in the partition the first failing leaf sits"""
    t = {}
    if not aux or not path:
        return t
    rows, cols = aux["rows"], aux["cols"]
    if two_d and nd == 2 and len(path) >= 2:
        i, j = path[0], path[1]
        ri = i < len(rows) and rows[i] < 0
        cj = j < len(cols) and cols[j] < 0
        t["cell"] = ("intersection" if ri and cj else "ins_row" if ri else
                     "ins_col" if cj else "base")
        rd = i < len(aux["rdiff"]) and aux["rdiff"][i]
        cdf = j < len(aux["cdiff"]) and aux["cdiff"][j]
        t["diff"] = "both" if rd and cdf else "row" if rd else "col" if cdf else "no"
    elif not two_d and nd == 1:
        i = path[0]
        t["cell"] = "ins_row" if i < len(rows) and rows[i] < 0 else "base"
        t["diff"] = "row" if i < len(aux["rdiff"]) and aux["rdiff"][i] else "no"
    return t


def _any_nonempty(x):
    """some innermost list (a set of column indices) of a nested list is non-empty"""
    if isinstance(x, (list, tuple)):
        if x and not any(isinstance(v, (list, tuple)) for v in x):
            return True
        return any(_any_nonempty(v) for v in x if isinstance(v, (list, tuple)))
    return False


def _any_below(x, thr):
    if isinstance(x, (list, tuple)):
        return any(_any_below(v, thr) for v in x)
    return isinstance(x, float) and x == x and x < thr


def replay(job, rec):
    """-> {"evaluations": n, "mismatches": [...], "nontrivial": bool, "features": [...]}"""
    scn = job["scn"]
    prop_id = job["prop_id"]
    only = job.get("only_props")
    skip = set(job.get("skip_props") or ())
    cfg = (scn.get("configs") or [configs.DEFAULT])[rec.get("ci", 1) - 1]
    resp = envelope.build_response(scn, rec, cfg)
    xf = configs.transforms_dict(cfg)
    auxs = rec.get("aux") or []
    aux = auxs[0] if auxs else {}
    rd, cd = slice_dims(scn)
    base_tags = {"rows": kind_name(rd), "cols": kind_name(cd), "nd": len(scn["dims"]),
                 "ins_rows": any(r < 0 for r in aux.get("rows", ())),
                 "ins_cols": any(c < 0 for c in aux.get("cols", ())),
                 "has_diff_rows": any(aux.get("rdiff", ())),
                 "has_diff_cols": any(aux.get("cdiff", ())),
                 "vc": bool(scn.get("valid_counts"))}
    if scn.get("overlaps"):
        base_tags["overlaps"] = True
    for side, key in (("rows", "row_sort"), ("cols", "col_sort")):
        o = cfg[side]["order"]
        if o["type"] not in ("payload", "explicit"):
            base_tags[key] = "%s:%s" % (o["type"], o.get("measure") or o.get("marginal") or "")
    mism = []
    evals = 0
    feats = features_of(rec, scn, aux)
    with warnings.catch_warnings(record=True) as wlog:
        warnings.simplefilter("always")
        try:
            cube = Cube(resp, population=scn.get("population"), mask_size=scn["min_base"],
                        transforms=xf)
            parts = cube.partitions
        except Exception as e:  # noqa
            mism.append(Mismatch(prop_id, None, "constructing partitions raised %r" % (e,), {},
                                 tags=dict(base_tags, prop="<construct>",
                                           raises=type(e).__name__)))
            return {"evaluations": 1, "mismatches": mism, "nontrivial": True, "features": feats}
        if len(parts) != len(rec["parts"]):
            mism.append(Mismatch(prop_id, None, "library yields %d partitions, spec %d" %
                                 (len(parts), len(rec["parts"])), {},
                                 tags=dict(base_tags, prop="<partitions>")))
            return {"evaluations": 1, "mismatches": mism, "nontrivial": True, "features": feats}
        import numpy as np
        for prop, e in (rec.get("cube") or {}).items():
            if prop == "none" or (prop == "means" and "mean" not in scn.get("ymeasures", ())):
                continue
            evals += 1
            try:
                obs = getattr(cube, prop)
                if e.get("k") not in ("none", "any"):
                    obs = float(obs) if e.get("nd") == 0 else np.asarray(obs, dtype=float).ravel()
            except Exception as ex:  # noqa
                mism.append(Mismatch(prop_id, None, "Cube.%s raised %r" % (prop, ex), {},
                                     tags=dict(base_tags, prop="Cube." + prop,
                                               raises=type(ex).__name__)))
                continue
            errs = compare(obs, e)
            if errs:
                path, o, x = errs[0]
                mism.append(Mismatch(prop_id, None, "Cube.%s[%s]: library %r, spec %r" %
                                     (prop, ",".join(map(str, path)), o, x),
                                     {"observed": to_py(obs), "expected": e},
                                     tags=dict(base_tags, prop="Cube." + prop)))
        for k, (part, exp) in enumerate(zip(parts, rec["parts"])):
            aux = auxs[k] if k < len(auxs) else {}
            exp = expand_expectations(exp, cfg)
            if job.get("check_table_name") and aux.get("tpos"):
                td = scn["dims"][0]
                lbl = (envelope._item_name(td, aux["tpos"]) if td["kind"] in ("mr", "caitems")
                       else envelope._cat_name(td, aux["tpos"]))
                want = "Var %s: %s" % (td["var"], lbl)
                evals += 1
                got = getattr(part, "table_name", None)
                if got != want:
                    mism.append(Mismatch(prop_id, None, "table_name of partition %d is %r, "
                                         "expected %r" % (k, got, want), {},
                                         tags=dict(base_tags, prop="table_name")))
                # the sub-variable a stacked table of a categorical array belongs to
                for tprop, twant in (("tab_label", envelope._item_name(td, aux["tpos"])
                                      if td["kind"] == "caitems" else ""),
                                     ("tab_alias", envelope._item_alias(td, aux["tpos"])
                                      if td["kind"] == "caitems" else "")):
                    evals += 1
                    tgot = getattr(part, tprop, None)
                    if tgot != twant:
                        mism.append(Mismatch(prop_id, None, "%s of partition %d is %r, expected %r"
                                             % (tprop, k, tgot, twant), {},
                                             tags=dict(base_tags, prop=tprop)))
            for prop, e in exp.items():
                if prop in skip or (only and prop not in only):
                    continue
                if prop in YPROP_MEASURE and YPROP_MEASURE[prop] not in scn.get("ymeasures", ()):
                    continue
                if isinstance(e, dict) and e.get("k") == "touch":
                    # read for its side effects only; whatever it returns or raises
                    try:
                        observe(part, prop, scn, cfg, aux)
                    except Exception:  # noqa
                        pass
                    continue
                evals += 1
                nwarn = len(wlog)
                try:
                    obs = observe(part, prop, scn, cfg, aux)
                except Exception as ex:  # noqa
                    mism.append(Mismatch(prop_id, None,
                                         "%s raised %r (partition %d)" % (prop, ex, k),
                                         {"partition": k},
                                         tags=dict(base_tags, prop=prop,
                                                   raises=type(ex).__name__)))
                    continue
                if len(wlog) > nwarn and job.get("report_warnings"):
                    w = wlog[-1]
                    feats.append("runtime_warning")
                    mism.append(Mismatch(prop_id, None,
                                         "%s emitted %s: %s" % (prop, w.category.__name__, w.message),
                                         {}, severity="drift",
                                         tags={"prop": prop, "warns": w.category.__name__}))
                errs = compare(obs, e)
                if isinstance(e, dict) and e.get("k") == "pwidx" and _any_nonempty(to_py(obs)):
                    feats.append("pairwise_index_set_nonempty")
                if isinstance(e, dict) and e.get("k") == "tail_t" and _any_below(to_py(obs), 0.05):
                    feats.append("pairwise_p_below_0.05")
                if errs:
                    path, o, x = errs[0]
                    tags = dict(base_tags, prop=prop.split("@")[0], out_nd=e.get("nd", 0))
                    tags.update(cell_tags(path, e.get("nd", 0), aux, cd is not None))
                    if "@" in prop and len(path) >= 2:
                        tags["pw_self"] = int(prop.split("@")[1]) == path[1]
                    if e.get("k") == "pwidx" and len(path) >= 2 and isinstance(o, list):
                        tags["contains_self"] = path[1] in o
                    mism.append(Mismatch(
                        prop_id, None,
                        "%s[%s] partition %d: library %r, spec %r" %
                        (prop, ",".join(map(str, path)), k, o, x),
                        {"partition": k, "observed": to_py(obs), "expected": e}, tags=tags))
        # second pass in reverse order over the same (now cached) objects: a read that
        # modified another property's cached value in place shows up here
        if not mism and not job.get("single_pass"):
            for k, (part, exp) in enumerate(zip(parts, rec["parts"])):
                aux = auxs[k] if k < len(auxs) else {}
                exp = expand_expectations(exp, cfg)
                for prop in reversed(list(exp)):
                    e = exp[prop]
                    if prop in skip or (only and prop not in only):
                        continue
                    if prop in YPROP_MEASURE and YPROP_MEASURE[prop] not in scn.get("ymeasures", ()):
                        continue
                    if isinstance(e, dict) and e.get("k") == "touch":
                        continue
                    try:
                        obs = observe(part, prop, scn, cfg, aux)
                    except Exception:  # noqa
                        continue
                    errs = compare(obs, e)
                    if errs:
                        path, o, x = errs[0]
                        mism.append(Mismatch(
                            prop_id, None,
                            "%s[%s] partition %d changed on a second read after other "
                            "properties were read: library %r, spec %r" %
                            (prop, ",".join(map(str, path)), k, o, x),
                            {"partition": k, "observed": to_py(obs), "expected": e},
                            tags=dict(base_tags, prop=prop, reread=True)))
        # third pass: a fresh Cube read in reverse order, so that every property is also
        # computed *after* the ones that followed it in the first pass (a computation that
        # disturbs state another one starts from is order-dependent on first use)
        if not mism and not job.get("single_pass"):
            import copy
            try:
                cube2 = Cube(copy.deepcopy(resp), population=scn.get("population"),
                             mask_size=scn["min_base"], transforms=copy.deepcopy(xf))
                parts2 = cube2.partitions
            except Exception:  # noqa
                parts2 = ()
            for k, (part, exp) in reversed(list(enumerate(zip(parts2, rec["parts"])))):
                aux = auxs[k] if k < len(auxs) else {}
                exp = expand_expectations(exp, cfg)
                for prop in reversed(list(exp)):
                    e = exp[prop]
                    if prop in skip or (only and prop not in only):
                        continue
                    if prop in YPROP_MEASURE and YPROP_MEASURE[prop] not in scn.get("ymeasures", ()):
                        continue
                    if isinstance(e, dict) and e.get("k") == "touch":
                        try:
                            observe(part, prop, scn, cfg, aux)
                        except Exception:  # noqa
                            pass
                        continue
                    try:
                        obs = observe(part, prop, scn, cfg, aux)
                    except Exception as ex:  # noqa
                        mism.append(Mismatch(
                            prop_id, None,
                            "%s raised %r when read in reverse order on a fresh cube "
                            "(partition %d)" % (prop, ex, k), {"partition": k},
                            tags=dict(base_tags, prop=prop, raises=type(ex).__name__,
                                      reverse_fresh=True)))
                        continue
                    errs = compare(obs, e)
                    if errs:
                        path, o, x = errs[0]
                        mism.append(Mismatch(
                            prop_id, None,
                            "%s[%s] partition %d differs when the properties are read in "
                            "reverse order on a fresh cube: library %r, spec %r" %
                            (prop, ",".join(map(str, path)), k, o, x),
                            {"partition": k, "observed": to_py(obs), "expected": e},
                            tags=dict(base_tags, prop=prop, reverse_fresh=True)))
    return {"evaluations": evals, "mismatches": mism,
            "nontrivial": "empty_data" not in feats or bool(job.get("count_empty_nontrivial")),
            "features": feats}
