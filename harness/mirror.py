"""Direction B for C10: the response and its transpose are both evaluated by the real
library, the two evaluations are recorded as snapshots of interned values and TLC
(TraceRelation.tla, rel = "mirror") decides whether they are mirror images.

The transposed response is built mechanically from the spec's payload: the dimension
dictionaries are exchanged and every measure tensor has its axes permuted -- exactly the
"exchange the two dimensions and transpose the data" of the statement."""
import copy
import json

import numpy as np

from cr.cube.cube import Cube

import configs
import envelope
import relation
from runner import Mismatch


def _axes(dim):
    return [dim["n"], 3] if dim["kind"] == "mr" else [dim["n"]]


def _permute(flat, d1, d2):
    a1, a2 = _axes(d1), _axes(d2)
    arr = np.empty(len(flat), dtype=object)
    for i, v in enumerate(flat):
        arr[i] = v
    arr = arr.reshape(a1 + a2)
    n1, n2 = len(a1), len(a2)
    perm = list(range(n1, n1 + n2)) + list(range(n1))
    return list(arr.transpose(perm).ravel())


def transpose(scn, rec, cfg):
    d1, d2 = scn["dims"]
    scn_t = copy.deepcopy(scn)
    scn_t["dims"] = [copy.deepcopy(d2), copy.deepcopy(d1)]
    rec_t = {"flat": {k: _permute(v, d1, d2) for k, v in rec["flat"].items()}}
    rec_t["hdr"] = rec["hdr"]       # the header does not depend on the order of the dimensions
    if isinstance(rec.get("flaty"), dict) and "mean" in rec["flaty"]:
        rec_t["flaty"] = {k: _permute(v, d1, d2) for k, v in rec["flaty"].items()}
    cfg_t = {"rows": copy.deepcopy(cfg["cols"]), "cols": copy.deepcopy(cfg["rows"])}
    return scn_t, rec_t, cfg_t


def snapshot(part, it):
    snap = {}
    for name in relation.public_props(part):
        if name in ("dimension_types", "cube_index", "ndim", "name", "description",
                    "variable_name", "table_name", "tab_label", "tab_alias"):
            continue
        try:
            vals = relation._get(part, name)
        except Exception:  # noqa
            continue
        for key, v in vals.items():
            key = key.replace(".", "__")
            if isinstance(v, np.ma.MaskedArray):
                v = v.filled(np.nan)
            if isinstance(v, np.ndarray) and v.ndim == 2 and v.dtype != object:
                snap[key] = {"k": "mat", "v": it.nested(v)}
            elif isinstance(v, np.ndarray) and v.ndim == 1 and v.dtype != object:
                snap[key] = {"k": "vec", "v": it.nested(v)}
            elif isinstance(v, (tuple, list)) and all(
                    isinstance(x, (int, float, str, np.generic, type(None))) for x in v):
                snap[key] = {"k": "vec", "v": it.nested(list(v))}
            elif isinstance(v, (int, float, str, bool, type(None), np.generic)):
                snap[key] = {"k": "scalar", "v": it.tok(v)}
            elif hasattr(v, "name") and isinstance(getattr(v, "name", None), str):
                snap[key] = {"k": "scalar", "v": it.tok(v.name)}
    for meth in ("row_order", "column_order"):
        snap[meth] = {"k": "vec", "v": it.nested([int(x) for x in getattr(part, meth)()])}
    return snap


_STATE = {}


def replay(job, rec):
    scn = job["scn"]
    prop_id = job["prop_id"]
    st = _STATE.setdefault(scn["name"] + job["mode"], {"traces": [], "meta": {}, "n": 0})
    cfg = (scn.get("configs") or [configs.DEFAULT])[rec.get("ci", 1) - 1]
    scn_t, rec_t, cfg_t = transpose(scn, rec, cfg)
    mism = []
    try:
        p = Cube(envelope.build_response(scn, rec, cfg), transforms=configs.transforms_dict(cfg),
                 population=scn.get("population"), mask_size=scn["min_base"]).partitions[0]
        pt = Cube(envelope.build_response(scn_t, rec_t, cfg_t),
                  transforms=configs.transforms_dict(cfg_t),
                  population=scn.get("population"), mask_size=scn["min_base"]).partitions[0]
    except Exception as e:  # noqa
        mism.append(Mismatch(prop_id, None, "constructing partitions raised %r" % (e,), {},
                             tags={"prop": "<construct>", "raises": type(e).__name__}))
        return {"evaluations": 1, "mismatches": mism, "nontrivial": True, "features": []}
    it = relation.Interner()
    try:
        base = snapshot(p, it)
        xf = snapshot(pt, it)
    except Exception as e:  # noqa
        mism.append(Mismatch(prop_id, None, "reading raised %r" % (e,), {},
                             tags={"prop": "<snapshot>", "raises": type(e).__name__}))
        return {"evaluations": 1, "mismatches": mism, "nontrivial": True, "features": []}
    st["n"] += 1
    tid = st["n"]
    st["traces"].append({"id": tid, "rel": "mirror", "rb": [], "cb": [], "rx": [], "cx": [],
                         "base": base, "xf": xf,
                         "ev": [{"prop": k} for k in sorted(base)]})
    st["meta"][tid] = {"rec": rec}
    feats = []
    if sum(rec["flat"]["counts"]) > 0:
        feats.append("data")
    c = cfg["rows"]["vins"] or cfg["rows"]["xins"] or cfg["cols"]["vins"] or cfg["cols"]["xins"]
    if c:
        feats.append("insertions")
    return {"evaluations": len(base), "mismatches": mism, "nontrivial": "data" in feats,
            "features": feats}


def finish_job(job):
    st = _STATE.pop(job["scn"]["name"] + job["mode"], None)
    if not st or not st["traces"]:
        return [], {"traces": 0, "accepted": 0}, None
    acc, rej, err = relation.validate(st["traces"])
    out = []
    for tid, (l, prop) in rej.items():
        tr = [t for t in st["traces"] if t["id"] == tid][0]
        out.append((Mismatch(job["prop_id"], None,
                             "%s of the response is not the mirror image of its counterpart "
                             "in the analysis of the transposed response" % prop,
                             {"base": tr["base"].get(prop)},
                             tags={"prop": prop,
                                   "kind": (tr["base"].get(prop) or {}).get("k")}),
                    st["meta"][tid]["rec"]))
    missing = [t["id"] for t in st["traces"] if t["id"] not in acc and t["id"] not in rej]
    if missing and not err:
        err = "no verdict for traces %s" % missing[:5]
    return out, {"traces": len(st["traces"]), "accepted": len(acc)}, err
