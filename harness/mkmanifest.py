"""Regenerate /verif/MANIFEST.json from the table below (kept in one place so the
manifest stays valid as properties are added)."""
import json
import os

VERIF = os.path.dirname(os.path.dirname(os.path.abspath(__file__)))

TRUST = ("TLC 1.8.0 + CommunityModules; the TLA+ text under /verif/spec; the mechanical "
         "envelope serialiser harness/envelope.py; float-vs-rational projection with "
         "relative tolerance 1e-9; small-scope bounds stated in the evidence file")

CHECKS = {
    "C01": dict(
        text="TLC enumerates every bag of respondents up to a bound (and random larger bags) "
             "for 60 scenario shapes covering all row x column (x table) type pairings "
             "(incl. derived MR items, LOGICAL, the typedef order list), weighted / unweighted / "
             "fractional weights, numeric measures, numeric arrays, the response header; Spec "
             "derives the wire tensors and the meaning of counts/means/sums/stddev/medians; "
             "every state is replayed into the real Cube and each cell compared.",
        ref="DESIGN.md section 4 C01",
        technique="TLA+ survey model, TLC state enumeration, spec-behaviour replay into Cube"),
    "C02": dict(
        text="As C01 for the per-cell bases in the three directions (weighted and "
             "unweighted), the collapsed margins, table base/margin, their ranges and the "
             "min-base masks, with per-item missingness in MR/array items enumerated by TLC.",
        ref="DESIGN.md section 4 C02",
        technique="TLA+ survey model, TLC state enumeration, spec-behaviour replay into Cube"),
    "C03": dict(
        text="As C01 for row/column/table proportions, percentages and margin proportions, "
             "including empty data and zero bases (NaN placement exact).",
        ref="DESIGN.md section 4 C03",
        technique="TLA+ survey model, TLC state enumeration, spec-behaviour replay into Cube"),
}

CHECKS["C04"] = dict(
    text="Seeded samples of insertion configurations (addend/subtrahend sets over valid, "
         "missing and stale ids, any anchor, view or transforms, hidden/malformed dicts) x "
         "TLC-enumerated bags of respondents; Insertions.tla/Collate.tla resolve and place the "
         "subtotals, Slice.tla defines every block (body, inserted rows/columns, "
         "intersections) by one signed-indicator rule incl. the NaN and categorical-date "
         "rules; every measure defined for a subtotal (counts, bases, proportions, errors, "
         "residuals, scale statistics, population estimates, pairwise statistics) is replayed "
         "into Cube and compared cell by cell.",
    ref="DESIGN.md section 4 C04",
    technique="TLA+ survey + insertion model, TLC enumeration, spec-behaviour replay into Cube")

CHECKS["C11"] = dict(
    text="Derived.tla defines the variance of a row/column/table proportion as the weighted "
         "variance of the signed cell indicator among the respondents of the base; TLC "
         "enumerates bags x insertion configurations (ordinary, subtotal, difference, "
         "intersection cells; slices and strands); variances compared as exact rationals, "
         "std-dev/std-err/MoE by square and sign (Z = 1.959964).",
    ref="DESIGN.md section 4 C11",
    technique="TLA+ survey model, TLC enumeration, spec-behaviour replay into Cube")
CHECKS["C12"] = dict(
    text="Derived.tla defines z by sign and square from each cell's own bases and the exact "
         "rank < 2 rule; TLC enumerates bags (degenerate tables included) x insertion "
         "configurations and checks the theorem Z2 = Pearson chi-square on every 2x2 state; "
         "zscores compared by sign and square, pvals against the two-sided normal tail; "
         "huge tables (batches of 100,000 respondents, bases within 1e-5 of each other) by "
         "definedness and sign, products compared as base-10^4 limbs (family c12h).",
    ref="DESIGN.md section 4 C12",
    technique="TLA+ survey model + TLC-checked spec theorem, spec-behaviour replay into Cube")

CHECKS["C14"] = dict(
    text="Derived.tla defines scale mean / population variance / median (of the expanded "
         "multiset) / SE^2 over the respondents of a vector that carry a numeric value; "
         "numeric-value assignments from {-1,0,1,2,none} x TLC-enumerated bags (zero-count "
         "categories anywhere in the value order) x subtotal vectors; slices and strands; "
         "every bag of <= 3 batches of 99,999-100,001 respondents for the exactly-50% rule "
         "of the median on shares within 1e-5 of one half (family c14h).",
    ref="DESIGN.md section 4 C14",
    technique="TLA+ survey model, TLC enumeration, spec-behaviour replay into Cube")
CHECKS["C15"] = dict(
    text="Derived.tla defines row/column/total share of sum with totals over base cells "
         "only; sum responses on categorical, MR and numeric-array rows (0 or NaN for empty "
         "cells) x insertion configurations on rows and/or columns x TLC-enumerated bags.",
    ref="DESIGN.md section 4 C15",
    technique="TLA+ survey model, TLC enumeration, spec-behaviour replay into Cube")
CHECKS["C16"] = dict(
    text="Derived.tla defines the unconditional row share with a third indicator mode "
         "('any': the column answer places no condition); CAT/MR pairings, 2-D and 3-D with "
         "missing table and column categories in every position (categorical, categorical-date "
         "and datetime table dimensions) x TLC-enumerated bags.",
    ref="DESIGN.md section 4 C16",
    technique="TLA+ survey model, TLC enumeration, spec-behaviour replay into Cube")
CHECKS["C17"] = dict(
    text="Derived.tla defines population proportion (cat-date aware), the filter-fraction "
         "decision table and the MoE; every filter-statistics shape x populations "
         "{1000,0,None,1,7} x cat-date on rows/columns/neither x slices and strands x bags.",
    ref="DESIGN.md section 4 C17",
    technique="TLA+ survey model, TLC enumeration, spec-behaviour replay into Cube")
CHECKS["C07"] = dict(
    text="Collate.tla / Insertions.tla define the anchored display order, both renderings and "
         "the numbering of id-less insertions; thousands of seeded configurations (explicit "
         "lists with repeats / stale / missing ids, hidden subsets, anchors in every "
         "spelling, ids on all / none / some insertions, view and analysis insertions "
         "together, non-ascending element ids) are interpreted by TLC and replayed.",
    ref="DESIGN.md section 4 C07",
    technique="TLA+ collation model, TLC evaluation of sampled configurations, replay into Cube")
CHECKS["C09"] = dict(
    text="View.tla defines visibility: hidden iff flagged, pruned iff the unweighted pruning "
         "base is zero (MR x MR deviation modelled), subtotals pruned only with an entirely "
         "empty pruned opposing dimension; hide/prune/order/insertion configurations x "
         "TLC-enumerated bags with weights {0,1,2}.",
    ref="DESIGN.md section 4 C09",
    technique="TLA+ visibility model, TLC enumeration, spec-behaviour replay into Cube")

CHECKS["C08"] = dict(
    text="Sort.tla defines the SET of acceptable display orders of a sort-by-value transform "
         "(subtotal group / fixed top / body / fixed bottom, each monotone in the public "
         "measure, NaN last in payload order, fallback to the anchored order) and TLC computes "
         "its extension per state; seeded sort configurations over every supported keyword x "
         "TLC-enumerated bags (ties, NaN keys, zero bases); membership checked on the library's "
         "row_order()/column_order().",
    ref="DESIGN.md section 4 C08",
    technique="TLA+ sort-acceptance predicate, TLC computes acceptable-order sets, replay into Cube")

CHECKS["C05"] = dict(
    text="Direction B: for seeded display-transform configurations x TLC-generated bags the "
         "real library is evaluated with and without the transforms on the spec's payload; "
         "every public array/scalar property found by reflection is recorded (values "
         "interned) together with the display orders the library reports, and TLC validates "
         "each recorded pair against the re-index relation of TraceRelation.tla (matrices, "
         "row/column vectors, position lists and position-set matrices renumbered, scalars "
         "unchanged, no duplicates, extents). Absolute orders are decided by C07/C08/C09.",
    ref="DESIGN.md section 4 C05, section 2.2",
    technique="trace validation: recorded library evaluations checked by TLC against TraceRelation.tla")

CHECKS["C10"] = dict(
    text="Direction B: for every 2-D pairing with insertions, differences and display "
         "transforms x TLC-generated bags, the response and its mechanically transposed twin "
         "(dimension dicts exchanged, every payload tensor axis-permuted) are both evaluated by "
         "the library; snapshots of all public properties are validated by TLC against the "
         "mirror table of TraceRelation.tla (row_* <-> column_*, direction-free measures "
         "transposed).",
    ref="DESIGN.md section 4 C10, section 2.2",
    technique="trace validation: recorded library evaluations checked by TLC against TraceRelation.tla (mirror)")
CHECKS["C20"] = dict(
    text="Smoothing.tla defines the trailing moving average, its guards and its composition "
         "with column proportions / index / means / scale mean; series lengths 1-4 x windows "
         "{absent, null, omitted, -1 .. periods+1} x TLC-enumerated bags (NaN periods), date "
         "and non-date dimensions, 1-D and 2-D, with row subtotals.",
    ref="DESIGN.md section 4 C20",
    technique="TLA+ smoothing model, TLC enumeration, spec-behaviour replay into Cube")

CHECKS["C13"] = dict(
    text="Pairwise.tla defines t (formal quotient, sign), the degrees of freedom and the index-"
         "set rule for proportions (unweighted / effective base) and means (Welch); antisymmetry "
         "and t(a,a)=0 are checked by TLC as a theorem in every state; seeded insertion / order / "
         "alpha / only-larger configurations x TLC-enumerated bags; every display column as "
         "selected column; p-values via the Student-t tail, index sets by the stated rule; the "
         "legacy accessor is compared too; squared weights on a response whose weighted and "
         "unweighted counts coincide (every bag of <= 6 respondents with weights 1/2, 3/2).",
    ref="DESIGN.md section 4 C13",
    technique="TLA+ pairwise model + TLC-checked spec theorem, spec-behaviour replay into Cube")
CHECKS["C18"] = dict(
    text="Session.tla is the access-history state machine (caller-owned response / transforms "
         "OBJECTS aliased by cubes and partitions, in-place rewrite on first dimension build, "
         "per-object caches); TLC checks its design properties (fenced: no lost reference; "
         "unfenced: regenerates the known counterexample) and enumerates schedules, which are "
         "replayed on live objects, every read compared with a fresh evaluation; the guarded "
         "lazyproperty hook records cache event streams of those replays, of long random "
         "schedules over every public property and of the repository's integration tests, "
         "validated by TLC against TraceCache.tla; response forms and repeated cube sets "
         "(numeric-measure sets, single-column filter cubes) over the same response objects.",
    ref="DESIGN.md section 4 C18, section 2.5",
    technique="TLA+ state machine model-checked by TLC; behaviours replayed; hook traces validated by TLC (TraceCache.tla)")
CHECKS["C19"] = dict(
    text="ElementRef.tla is the ordered resolution cascade over adversarial id schemes; TLC "
         "checks two resolution theorems on all 13,824 schemes and emits a seeded sample with "
         "the item every candidate reference denotes; for MR rows / MR columns / CA items x six "
         "transform slots the library's output with the reference is compared with its output "
         "with the alias of the denoted item (or without the reference).",
    ref="DESIGN.md section 4 C19",
    technique="TLA+ resolution model checked by TLC, spec-behaviour replay into Cube")

CHECKS["C06"] = dict(
    text="3-D responses with every table-dimension type (categorical with the missing category "
         "first / middle / last, cat-date, MR, CA items, CA categories) over every rows x columns "
         "pairing x TLC-enumerated bags: all partition outputs and table_name against the "
         "respondent-level meaning with the table element in membership mode; CubeSet families "
         "(tabbook, CA-as-0th, numeric-measure rows as dict and JSON text, the rebuilt "
         "single-column filter cube with population / minimum base / hide+prune transforms and "
         "a second set over the same objects) built from spec-emitted member responses.",
    ref="DESIGN.md section 4 C06",
    technique="TLA+ survey model, TLC enumeration, spec-behaviour replay into Cube / CubeSet")

NOT_YET = {}


def main():
    props = [json.loads(l) for l in open(os.path.join(VERIF, "properties.jsonl"))]
    checks = []
    na = []
    for p in props:
        pid = p["id"]
        if pid in CHECKS:
            c = CHECKS[pid]
            checks.append({
                "property_id": pid,
                "quick_cmd": "./check %s --tier quick" % pid,
                "thorough_cmd": "./check %s --tier thorough" % pid,
                "evidence_file": "/verif/evidence/%s.json" % pid,
                "replay_cmd_template": "./check %s --replay {path}" % pid,
                "engine": "tlc-replay",
                "level_claimed": {"category": "model_checking", "text": c["text"],
                                  "design_ref": c["ref"]},
                "level_note": TRUST,
                "technique": c["technique"],
            })
        else:
            na.append({"property_id": pid,
                       "reason": NOT_YET.get(pid, "check not built yet (work in progress; "
                                             "see DESIGN.md section 9 build order)")})
    man = {
        "version": 1,
        "setup_cmd": "mkdir -p evidence replays && java -cp /opt/veriftools/tla/tla2tools.jar tlc2.TLC -h >/dev/null 2>&1; /venv/bin/python -c 'import sys; sys.path.insert(0, \"/repo/src\"); import cr.cube, numpy'",
        "hooks": {
            "guard": "CRUNCH_CUBE_VERIF",
            "enable": "environment variable CRUNCH_CUBE_VERIF=1 (set by ./check); the library is "
                      "imported from /repo/src of the current working tree, no build step",
            "baseline_off_cmd": "cd /repo && env -u CRUNCH_CUBE_VERIF /venv/bin/python -m pytest -ra -q -p no:cacheprovider --timeout=900 --continue-on-collection-errors",
            "source_commits": ["844ca934", "c131e5b0"],
            "add_only": True,
        },
        "engines": [
            {"name": "tlc-replay", "path": "/verif/check",
             "serves_properties": sorted(CHECKS),
             "kind_free_text": "TLA+ specification of the survey behind a cube response "
                               "(spec/*.tla) checked and enumerated by TLC; every emitted "
                               "state/behaviour is replayed into the real library "
                               "(harness/*.py) and recorded traces are validated by TLC"},
        ],
        "checks": checks,
        "not_applicable": na,
        "notes": "See DESIGN.md. Exit 2 = machinery failure (never a verdict).",
    }
    with open(os.path.join(VERIF, "MANIFEST.json"), "w") as f:
        json.dump(man, f, indent=1)


if __name__ == "__main__":
    main()
