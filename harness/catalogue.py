"""Scenario catalogue shared by the value properties."""
import scenarios as S
from scenarios import cat, mr, caitems, cacat, numarr, scenario


def pairings_2d():
    """the row x column type pairings, small, missing categories first / middle / last"""
    return [
        scenario("cat_x_cat", [cat("A", 3, miss=[2]), cat("B", 4, miss=[1])], max_resp=2),
        scenario("cat_x_mr", [cat("A", 3, miss=[3]), mr("B", 2)], max_resp=2),
        scenario("mr_x_cat", [mr("A", 2), cat("B", 3, miss=[2])], max_resp=2),
        scenario("mr_x_mr", [mr("A", 2), mr("B", 2)], max_resp=1, sim_max_resp=4),
        scenario("mr3_x_mr2", [mr("A", 3), mr("B", 2)], max_resp=1, sim_max_resp=4),
        scenario("catdate_x_cat", [cat("A", 3, miss=[3], date=True), cat("B", 3, miss=[1])],
                 max_resp=2),
        scenario("mr_x_catdate", [mr("A", 2), cat("B", 3, miss=[2], date=True)], max_resp=2),
        scenario("casub_x_cacat", [caitems("A", 2), cacat("A", 3, miss=[2])], max_resp=2),
        scenario("cacat_x_casub", [cacat("A", 3, miss=[1]), caitems("A", 2)], max_resp=2),
        scenario("text_x_cat", [cat("A", 3, miss=[3], subtype="text"), cat("B", 2)],
                 max_resp=2),
        scenario("datetime_x_mr", [cat("A", 3, miss=[1], subtype="datetime"), mr("B", 2)],
                 max_resp=1, sim_max_resp=4),
        scenario("mrder_x_cat", [mr("A", 3, derived={1: {"of": [2, 3], "at": "top"}}), cat("B", 2)],
                 max_resp=2),
        scenario("logical_x_cat", [cat("A", 3, miss=[3], ids=[1, 0, -1], logical=True), cat("B", 3, miss=[2])],
                 max_resp=2),
        scenario("mr_x_logical", [mr("A", 2), cat("B", 3, miss=[3], ids=[1, 0, -1], logical=True)],
                 max_resp=1, sim_max_resp=4),
        # the typedef lists the categories in another order than the data axis ("order" list)
        scenario("cat_x_cat.tdo", [cat("A", 3, miss=[2], typedef_order="reverse"),
                                   cat("B", 4, miss=[1], typedef_order="rotate")], max_resp=2),
    ]


def strands():
    return [
        scenario("cat_1d", [cat("A", 4, miss=[2])], max_resp=3),
        scenario("mr_1d", [mr("A", 3)], max_resp=2),
        scenario("catdate_1d", [cat("A", 4, miss=[4], date=True)], max_resp=3),
        scenario("binned_1d", [cat("A", 3, miss=[1], subtype="binned")], max_resp=3),
    ]


def cubes_3d():
    return [
        scenario("cat_x_cat_x_cat", [cat("T", 3, miss=[2]), cat("A", 2), cat("B", 3, miss=[3])],
                 max_resp=2),
        scenario("mr_x_cat_x_cat", [mr("T", 2), cat("A", 2), cat("B", 2)], max_resp=2),
        scenario("cat_x_mr_x_cat", [cat("T", 3, miss=[1]), mr("A", 2), cat("B", 2)],
                 max_resp=1, sim_max_resp=4),
        scenario("cat_x_cat_x_mr", [cat("T", 3, miss=[2]), cat("A", 2), mr("B", 2)],
                 max_resp=1, sim_max_resp=4),
        scenario("mr_x_mr_x_cat", [mr("T", 2), mr("A", 2), cat("B", 2)],
                 max_resp=1, sim_max_resp=4),
        scenario("mr_x_mr_x_mr", [mr("T", 2), mr("A", 2), mr("B", 2)],
                 max_resp=1, sim_max_resp=3),
        scenario("casub_x_cacat_x_cat", [caitems("A", 2), cacat("A", 3, miss=[2]), cat("B", 2)],
                 max_resp=2),
        scenario("cat_x_casub_x_cacat", [cat("T", 3, miss=[2]), caitems("A", 2), cacat("A", 2)],
                 max_resp=2),
        scenario("casub_x_cacat_x_mr", [caitems("A", 2), cacat("A", 2), mr("B", 2)],
                 max_resp=1, sim_max_resp=4),
        scenario("cacat_x_mr_x_casub", [cacat("A", 3, miss=[2]), mr("B", 2), caitems("A", 2)],
                 max_resp=1, sim_max_resp=4),
    ]


def numeric_measures():
    y = dict(yvals=(0, 1, 3), ymeasures=("mean", "sum", "stddev", "median"), valid_counts=True)
    out = [
        scenario("cat_x_cat_y", [cat("A", 3, miss=[2]), cat("B", 2)], max_resp=2, **y),
        scenario("cat_x_mr_y", [cat("A", 2), mr("B", 2)], max_resp=1, sim_max_resp=4, **y),
        scenario("mr_x_cat_y", [mr("A", 2), cat("B", 3, miss=[1])], max_resp=1, sim_max_resp=4, **y),
        scenario("mr_x_mr_y", [mr("A", 2), mr("B", 2)], max_resp=1, sim_max_resp=3, **y),
        scenario("cat_1d_y", [cat("A", 3, miss=[3])], max_resp=2, **y),
        scenario("mr_1d_y", [mr("A", 2)], max_resp=2, **y),
        scenario("cat_x_cat_x_cat_y", [cat("T", 3, miss=[2]), cat("A", 2), cat("B", 2)],
                 max_resp=1, sim_max_resp=4, **y),
        scenario("cat_x_mr_x_cat_y", [cat("T", 2), mr("A", 2), cat("B", 2)], **y),
        scenario("mr_x_cat_x_cat_y", [mr("T", 2), cat("A", 2), cat("B", 3, miss=[2])], **y),
        scenario("cat_x_cat_x_mr_y", [cat("T", 3, miss=[1]), cat("A", 2), mr("B", 2)], **y),
        scenario("nub_y", [], **y),
    ]
    # without valid-count measures (older responses): counts are plain counts
    y2 = dict(yvals=(0, 2), ymeasures=("mean",), valid_counts=False)
    out.append(scenario("cat_x_cat_y_novc", [cat("A", 2), cat("B", 3, miss=[2])], max_resp=2, **y2))
    return out


def numeric_arrays():
    y = dict(yvals=(0, 2), ymeasures=("mean", "sum"), valid_counts=True)
    return [
        scenario("numarr_1d", [numarr("N", 2)], max_resp=2, **y),
        scenario("numarr_x_cat", [numarr("N", 2), cat("B", 3, miss=[2])], max_resp=2, **y),
        scenario("numarr_x_mr", [numarr("N", 2), mr("B", 2)], max_resp=1, sim_max_resp=4, **y),
        scenario("numarr_x_cat_x_cat", [numarr("N", 2), cat("A", 3, miss=[2]), cat("B", 2)], **y),
    ]


def unweighted(scns):
    return [S.variant(s, ".u", weighted=False, weights=[1], max_resp=s["max_resp"] + 1)
            for s in scns]


def fractional(scns, wden=2, weights=(1, 2, 3)):
    """the same scenarios with fractional respondent weights: key weights w carry w / wden
    (halves or quarters, which binary floating point represents exactly)"""
    return [S.variant(s, ".frac", wden=wden, weights=list(weights), weighted=True) for s in scns]
