#!/bin/bash
# Development aid: line coverage of the library under the quick checks (single process per
# check so that the tracer sees the replays).  usage: covrun.sh [ids...]; report in /var/tmp/cov
ids="$@"
if [ -z "$ids" ]; then ids=$(python3 -c "import json; print(' '.join(c['property_id'] for c in json.load(open('/verif/MANIFEST.json'))['checks']))"); fi
mkdir -p /var/tmp/cov && cd /verif
echo $ids | tr ' ' '\n' | xargs -P 6 -I{} bash -c 'COVERAGE_FILE=/var/tmp/cov/.coverage.{} VERIF_OUT=/var/tmp/cov/out_{} /venv/bin/python -m coverage run --source=/repo/src/cr/cube ./check {} --procs 1 > /var/tmp/cov/{}.txt 2>&1; echo "{} done: $(tail -1 /var/tmp/cov/{}.txt | cut -c1-120)"'
cd /var/tmp/cov && /venv/bin/python -m coverage combine -q --keep .coverage.* && /venv/bin/python -m coverage report -m --skip-covered > /var/tmp/cov/report.txt; tail -40 /var/tmp/cov/report.txt
